"""C10 — modules load once, compile after their imports, import cycles are errors.
Proof: coq/Properties/C10.v. Tie: layer L7 (recording in-memory Loader around the real
`load`; `Locator::join` against the model's `join`). Monitors O10 on the implementation's
trace: exactly-once, after-imports, cycle <=> error, missing import reported, use-order and
spelling independence; they double as the run-time check of the toposort contract."""
import itertools
from . import core


def line_of(case):
    base, files, fails = case
    parts = []
    for i in sorted(files):
        st, imps = files[i]
        if st == 'G':
            parts.append("%d G %s" % (i, " ".join("%d:%d" % (t, k) for t, k in imps)))
        else:
            parts.append("%d %s" % (i, st))
    return "L %d ; %s | %s" % (base, " ; ".join(p.strip() for p in parts), " ".join(map(str, fails)))


def reachable(case):
    base, files, _ = case
    seen = []
    stack = [base]
    while stack:
        n = stack.pop()
        if n in seen:
            continue
        seen.append(n)
        st, imps = files.get(n, ('M', []))
        if st == 'G':
            for t, _ in imps:
                stack.append(t)
    return seen


def has_cycle(case, nodes):
    base, files, _ = case
    color = {}

    def dfs(n):
        color[n] = 1
        for t, _ in files[n][1]:
            if t not in nodes:
                continue
            if color.get(t) == 1:
                return True
            if color.get(t) is None and dfs(t):
                return True
        color[n] = 2
        return False
    return any(color.get(n) is None and dfs(n) for n in nodes)


def parse_out(o):
    parts = [p.strip() for p in o.split("|")]
    while len(parts) < 3:
        parts.append("")
    return parts[0], parts[1].split(), parts[2].split()


def monitor(ctx, case, o, label=""):
    base, files, fails = case
    inp = {"case": line_of(case)}
    if o is None or o.startswith("CRASH") or o.startswith("HANG") or o.startswith("panic"):
        ctx.violation("the loader does not terminate normally on this import graph", inp, "a result", o)
        return None
    verdict, evs, comps = parse_out(o)
    loads = [e for e in evs if e[0] == 'L']
    parses = [e for e in evs if e[0] == 'P']
    if len(set(loads)) != len(loads) or len(set(parses)) != len(parses):
        ctx.violation("a module is loaded or parsed more than once", inp, "each module once", o)
    if len(set(comps)) != len(comps):
        ctx.violation("a module is compiled more than once", inp, "each module once", o)
    reach = reachable(case)
    status = lambda n: files.get(n, ('M', []))[0]
    all_good = all(status(n) == 'G' for n in reach)
    cyc = all_good and has_cycle(case, reach)
    if verdict == "ok":
        if not all_good or cyc:
            ctx.violation("load succeeds although a reachable import is missing/unparsable or the import graph has a cycle",
                          inp, "an error", o)
        if sorted(int(e[1:]) for e in loads) != sorted(reach) or sorted(int(e[1:]) for e in parses) != sorted(reach):
            ctx.violation("the set of loaded/parsed modules is not the set of modules reachable from the base", inp, sorted(reach), o)
        if sorted(int(e[1:]) for e in comps) != sorted(reach):
            ctx.violation("the set of compiled modules is not the set of modules reachable from the base", inp, sorted(reach), o)
        pos = {int(e[1:]): i for i, e in enumerate(comps)}
        for n in reach:
            for t, _ in files.get(n, ('M', []))[1]:
                if t in pos and n in pos and not pos[t] < pos[n]:
                    ctx.violation("a module is compiled before a module it imports", inp, "m%d before m%d" % (t, n), o)
    else:
        if all_good and not cyc and not any(f in reach for f in fails):
            ctx.violation("load fails although every reachable module exists, parses, compiles and the graph is acyclic", inp, "ok", o)
        kind = verdict.split(":")[1] if ":" in verdict else verdict
        if all_good and cyc and kind != "cycle":
            ctx.violation("an import cycle (self import included) is not reported as a cycle error", inp, "err:cycle", o)
        if kind == "cycle" and not cyc:
            ctx.violation("a cycle error is reported for an acyclic import graph", inp, "no cycle error", o)
        if kind == "invalid":
            _, _, t, n = verdict.split(":")
            t, n = int(t), int(n)
            if status(t) != 'M' or n not in reach or t not in [x for x, _ in files.get(n, ('M', []))[1]]:
                ctx.violation("the import reported as invalid is not a missing import of a reachable module", inp, "a missing import", o)
        if kind != "compile" and comps:
            ctx.violation("modules were compiled although loading failed", inp, "no compile", o)
        if not all_good and kind == "load":
            # the loader was asked to read a file its own validity test would have refused
            ctx.violation("a missing import is reported as an input/output error, not as that import", inp, "err:invalid naming the import", o)
        elif not all_good and kind not in ("invalid", "parse"):
            # the traversal may hit a cycle? no: toposort only runs after the traversal finished
            ctx.violation("a missing or unparsable reachable import is not reported", inp, "err:invalid / err:parse", o)
    return verdict, set(loads), set(comps)


def small_graphs():
    opts = [[]]
    for a in range(3):
        opts.append([a])
    for a in range(3):
        for b in range(3):
            opts.append([a, b])
    for combo in itertools.product(opts, repeat=3):
        yield {i: ('G', [(t, 0) for t in combo[i]]) for i in range(3)}


def rand_case(ctx, nmax):
    rng = ctx.rng
    n = rng.randint(1, nmax)
    files = {}
    dag = rng.random() < 0.6
    for i in range(n):
        k = rng.choice([0, 1, 1, 2, 2, 3])
        cand = list(range(i + 1, n)) if dag else list(range(n))
        imps = [(rng.choice(cand), rng.randrange(5)) for _ in range(k)] if cand else []
        files[i] = ('G', imps)
    r = rng.random()
    fails = []
    if r < 0.15:
        files[rng.randrange(1, n + 1)] = ('M', [])
        # make someone import it
        tgt = max(files)
        src = rng.randrange(n)
        if files[src][0] == 'G':
            files[src][1].append((tgt if files[tgt][0] == 'M' else tgt, 0))
    elif r < 0.25 and n > 1:
        files[rng.randrange(1, n)] = ('B', [])
    elif r < 0.32:
        fails = [rng.randrange(n)]
    # a missing target outside the table
    if rng.random() < 0.1:
        src = rng.randrange(n)
        if files[src][0] == 'G':
            files[src][1].append((n + 3, rng.randrange(5)))
    return (0, files, fails)


def variant(ctx, case):
    base, files, fails = case
    nf = {}
    for i, (st, imps) in files.items():
        imps2 = [(t, ctx.rng.randrange(5)) for t, _ in imps]
        ctx.rng.shuffle(imps2)
        nf[i] = (st, imps2)
    return (base, nf, fails)


def distinct_files(ctx):
    """files whose locators differ only in case, or only in an escaped character, are different modules: each is loaded and
    compiled, and each import gets the declarations of the file it names"""
    from . import progs
    cases = [("types.oal", "Types.oal"), ("lib/t.oal", "LIB/t.oal"), ("a%2Fb.oal", "a/b.oal"), ("x.oal", "x.OAL")]
    ps = []
    for a, b in cases:
        ps.append({"mods": {"file:///w/main.oal": 'use "%s" as a;\nuse "%s" as b;\nres /lower on get -> <a.item>;\nres /upper on get -> <b.item>;\n' % (a, b),
                            "file:///w/" + a: "let item = { 'first_id int };\n", "file:///w/" + b: "let item = { 'second_name str };\n"},
                   "main": "file:///w/main.oal"})
    for (a, b), p, r in zip(cases, ps, progs.compile_many(ps)):
        ctx.cov["evaluations"] += 1
        if r.get("status") != "ok":
            ctx.violation("a program importing two different files with similar names is not compiled", {"program": p}, "ok", str(r.get("msg"))[:200])
            continue
        y = r.get("yaml") or ""
        if "first_id" not in y or "second_name" not in y:
            ctx.violation("two different files with similar names are treated as one module: an import gets the declarations of the other file",
                          {"program": p}, "both first_id and second_name in the document", "missing: %s" % [k for k in ("first_id", "second_name") if k not in y])
        else:
            ctx.count("distinct_files_ok")


def check(ctx):
    ctx.proof = core.proof_stage("C10", thorough=ctx.thorough)
    ok, out = core.ensure_runner()
    if not ok:
        ctx.broken.append("runner build failed: " + out[-300:])
    ok, out = core.ensure_harness()
    if not ok:
        ctx.broken.append("harness build against /repo failed: " + out[-600:])
        return core.finish(ctx)
    cases = []
    if ctx.replay:
        import json
        v = json.load(open(ctx.replay))
        lines = [v["input"]["case"]]
        if "variant_of" in v["input"]:
            lines.append(v["input"]["variant_of"])
        outs = core.run_stateless(core.IMPL, "load", lines)
        for l, o in zip(lines, outs):
            core.log(l + "  =>  " + str(o))
            if o is None or o.startswith(("CRASH", "HANG", "panic")):
                ctx.violation("the loader does not terminate normally", {"case": l}, "a result", o)
        ctx.cov["evaluations"] = len(lines)
        return core.finish(ctx)
    for files in small_graphs():
        cases.append((0, files, []))
    ctx.count("exhaustive_3_modules", len(cases))
    # one optional missing / unparsable target on top of the small graphs (sampled)
    for k, files in enumerate(small_graphs()):
        if (k + ctx.seed) % (3 if ctx.thorough else 11) == 0:
            f2 = {i: (st, list(imps)) for i, (st, imps) in files.items()}
            which = k % 3
            f2[1 + which % 2] = ('M' if k % 2 == 0 else 'B', [])
            cases.append((0, f2, []))
            ctx.count("small_with_defect")
    for _ in range(60000 if ctx.thorough else 3000):
        cases.append(rand_case(ctx, 8))
        ctx.count("random_upto_8")
    variants = [variant(ctx, c) for c in cases]
    lines = [line_of(c) for c in cases]
    vlines = [line_of(c) for c in variants]
    impl = core.run_stateless(core.IMPL, "load", lines + vlines)
    model = core.run_stateless(core.RUNNER, "load", lines) if not ctx.broken else None
    seen = set()
    for i, c in enumerate(cases):
        ctx.cov["evaluations"] += 2
        r = monitor(ctx, c, impl[i])
        rv = monitor(ctx, variants[i], impl[len(cases) + i])
        if r and rv:
            if (r[0] == "ok") != (rv[0] == "ok") or (r[0] == "ok" and (r[1] != rv[1] or r[2] != rv[2])):
                ctx.violation("the result depends on the order of use statements or on the spelling of import paths",
                              {"case": vlines[i], "variant_of": lines[i]}, impl[i], impl[len(cases) + i])
        if model is not None and impl[i] is not None and model[i] is not None:
            mv, me, mc = parse_out(model[i])
            iv, ie, ic = parse_out(impl[i])
            same = (me == ie)
            mk = mv.split(":")[:2]
            ik = iv.split(":")[:2]
            if mk[:1] == ["err"] and mk[1:2] in (["cycle"], ["compile"]):
                same = same and mk == ik
            else:
                same = same and mv == iv
            if mv == "ok":
                same = same and sorted(mc) == sorted(ic)
            if not same:
                ctx.count("tie_disagreements")
                if len(ctx.broken) < 20:
                    ctx.broken.append("L7 disagreement: %s impl=[%s] model=[%s]" % (lines[i], impl[i], model[i]))
            else:
                ctx.cov["traces_validated_against_impl"] += 1
        if lines[i] not in seen:
            seen.add(lines[i])
            if sum(len(f[1]) for f in c[1].values()) >= 2:
                ctx.count("nontrivial")
        if impl[i]:
            ctx.count("verdict_" + ":".join(impl[i].split("|")[0].strip().split(":")[:2]))
        if i in (5, 700, 2300, len(cases) - 1):
            ctx.sample({"case": lines[i], "impl": impl[i]})
    # Locator::join against the model
    jl = []
    segs = ["a", "b", ".", "..", "c.oal"]
    for d in ["/", "/r", "/r/s"]:
        for k in range(1, 5 if ctx.thorough else 4):
            for combo in itertools.product(segs, repeat=k):
                if combo[-1] in (".", ".."):
                    continue
                jl.append("J %s %s" % (d, "/".join(combo)))
    ji = core.run_stateless(core.IMPL, "load", jl)
    jm = core.run_stateless(core.RUNNER, "load", jl) if model is not None else None
    for k, l in enumerate(jl):
        ctx.cov["evaluations"] += 1
        if jm is not None and ji[k] != jm[k]:
            if len(ctx.broken) < 20:
                ctx.broken.append("join disagreement: %s impl=%s model=%s" % (l, ji[k], jm[k]))
        elif jm is not None:
            ctx.cov["traces_validated_against_impl"] += 1
    ctx.count("join_cases", len(jl))
    distinct_files(ctx)
    ctx.cov["rule"] = ("layer L7: every import graph on 3 modules with ordered import lists of length <= 2 (self imports and duplicates included), "
                       "a sample of them with one missing or unparsable target, random graphs up to 8 modules (DAG-biased, defects, failing compiles, "
                       "5 path spellings per import); every case is also run with shuffled use order and re-spelled paths. join: all relative "
                       "references of <= 3 segments over {a, b, ., .., c.oal} from 3 base directories. distinct_nontrivial = distinct cases with >= 2 import edges.")
    ctx.cov["distinct_nontrivial"] = ctx.cov["distribution"].get("nontrivial", 0)
    ctx.assumptions = ["petgraph::algo::toposort is a parameter of the model (contract topo_spec); the contract is checked on every graph of this run through the order/cycle monitors",
                       "url::Url::join is validated against the model's join on the enumerated relative references, not derived from it"]
    return core.finish(ctx)
