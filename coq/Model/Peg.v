(** A deep embedding of the parsing expressions of oal-model/src/grammar.rs and two
    interpreters: [run] (no memo table) and [runm] (memo table keyed by (cursor, tag), with
    the [reads] / [hits] counters of [Context]).

    Tokens are kind codes (trivia included); a cursor is an index into the token list, valid
    when smaller than its length; cursors handed out by the parser always point at a
    non-trivia token or at the end ([skip]). Matches are immutable trees: [Leaf i] is token
    [i]; [Node k cs] is a syntax node ([ParserMatch::Syntax k] is [Node k []]).
    Loops ([repeat], [intersperse]) are expressed with auxiliary productions, see Grammar.v.
    Recursion follows the code's and is therefore fuelled. *)
From Coq Require Export List NArith Bool PeanoNat.
Export ListNotations.

Inductive tree := Leaf (i : nat) | Node (k : N) (cs : list tree).

Inductive pexp :=
| Eps                              (* succeeds without consuming *)
| Tok (c : N)                      (* parse_token / parse_token_with: token class *)
| Seq2 (a b : pexp)
| Alt2 (a b : pexp)                (* a.or_else(|_| b) *)
| Mk (k : N) (a : pexp)            (* compose(k, matches of a) *)
| Collapse (k : N) (a : pexp)      (* parse_variadic_op: a single match is returned as it is *)
| Call (nt : nat)
| Memo (tag : N) (a : pexp)        (* memoize(tag, ..) *)
| IfThen (i t : pexp)              (* if let Ok(..) = i { t? }: once [i] matched, [t] is required *)
| NotRefFunc.                      (* the guard of parse_declaration *)

Inductive res := Ok (s : nat) (ms : list tree) | Fail | Fuel.

Section Peg.
Variable class_ok : N -> N -> bool.      (* token class, token kind *)
Variable is_trivia : N -> bool.
Variable K_IDENT_REF : N.
Variable g : nat -> pexp.                (* the productions *)
Variable toks : list N.

Definition kind_at (s : nat) : option N := nth_error toks s.

(** Context::skip_trivia; the recursion is on the remaining tokens *)
Fixpoint skip_from (rest : list N) (s : nat) : nat :=
  match rest with
  | [] => s
  | k :: rest' => if is_trivia k then skip_from rest' (S s) else s
  end.
Definition skip (s : nat) : nat := skip_from (skipn s toks) s.

(** the guard: the identifier is a reference (@name) and there is at least one binding *)
Definition ref_func (acc : list tree) : bool :=
  match rev acc with
  | Node _ (_ :: _) :: Leaf i :: _ =>
      match kind_at i with Some k => N.eqb k K_IDENT_REF | None => false end
  | _ => false
  end.

Fixpoint run (n : nat) (p : pexp) (s : nat) (acc : list tree) : res :=
  match n with
  | O => Fuel
  | S n' =>
      match p with
      | Eps => Ok s []
      | Tok c =>
          match kind_at s with
          | Some k => if class_ok c k then Ok (skip (S s)) [Leaf s] else Fail
          | None => Fail
          end
      | Seq2 a b =>
          match run n' a s acc with
          | Ok s1 m1 =>
              match run n' b s1 (acc ++ m1) with
              | Ok s2 m2 => Ok s2 (m1 ++ m2)
              | r => r
              end
          | r => r
          end
      | Alt2 a b =>
          match run n' a s acc with
          | Fail => run n' b s acc
          | r => r
          end
      | Mk k a =>
          match run n' a s [] with
          | Ok s1 m => Ok s1 [Node k m]
          | r => r
          end
      | Collapse k a =>
          match run n' a s [] with
          | Ok s1 [m] => Ok s1 [m]
          | Ok s1 m => Ok s1 [Node k m]
          | r => r
          end
      | Call nt => run n' (g nt) s []
      | Memo _ a => run n' a s []
      | IfThen i t =>
          match run n' i s acc with
          | Fail => Ok s []
          | Ok s1 m1 =>
              match run n' t s1 (acc ++ m1) with
              | Ok s2 m2 => Ok s2 (m1 ++ m2)
              | r => r
              end
          | Fuel => Fuel
          end
      | NotRefFunc => if ref_func acc then Fail else Ok s []
      end
  end.

(** the memoising interpreter *)
Record mstate := mk_mstate { table : list ((nat * N) * res); reads : nat; hits : nat }.

Fixpoint tlookup (t : list ((nat * N) * res)) (s : nat) (tag : N) : option res :=
  match t with
  | [] => None
  | ((s', tag'), r) :: t' => if Nat.eqb s s' && N.eqb tag tag' then Some r else tlookup t' s tag
  end.

Fixpoint runm (n : nat) (p : pexp) (s : nat) (acc : list tree) (st : mstate) : res * mstate :=
  match n with
  | O => (Fuel, st)
  | S n' =>
      match p with
      | Eps => (Ok s [], st)
      | Tok c =>
          let st' := mk_mstate (table st) (S (reads st)) (hits st) in
          match kind_at s with
          | Some k => if class_ok c k then (Ok (skip (S s)) [Leaf s], st') else (Fail, st')
          | None => (Fail, st')
          end
      | Seq2 a b =>
          match runm n' a s acc st with
          | (Ok s1 m1, st1) =>
              match runm n' b s1 (acc ++ m1) st1 with
              | (Ok s2 m2, st2) => (Ok s2 (m1 ++ m2), st2)
              | r => r
              end
          | r => r
          end
      | Alt2 a b =>
          match runm n' a s acc st with
          | (Fail, st1) => runm n' b s acc st1
          | r => r
          end
      | Mk k a =>
          match runm n' a s [] st with
          | (Ok s1 m, st1) => (Ok s1 [Node k m], st1)
          | r => r
          end
      | Collapse k a =>
          match runm n' a s [] st with
          | (Ok s1 [m], st1) => (Ok s1 [m], st1)
          | (Ok s1 m, st1) => (Ok s1 [Node k m], st1)
          | r => r
          end
      | Call nt => runm n' (g nt) s [] st
      | Memo tag a =>
          match tlookup (table st) s tag with
          | Some r => (r, mk_mstate (table st) (reads st) (S (hits st)))
          | None =>
              match runm n' a s [] st with
              | (Fuel, st1) => (Fuel, st1)
              | (r, st1) => (r, mk_mstate (((s, tag), r) :: table st1) (reads st1) (hits st1))
              end
          end
      | IfThen i t =>
          match runm n' i s acc st with
          | (Fail, st1) => (Ok s [], st1)
          | (Ok s1 m1, st1) =>
              match runm n' t s1 (acc ++ m1) st1 with
              | (Ok s2 m2, st2) => (Ok s2 (m1 ++ m2), st2)
              | r => r
              end
          | r => r
          end
      | NotRefFunc => (if ref_func acc then Fail else Ok s [], st)
      end
  end.
End Peg.

(** leaves of a forest, in order *)
Fixpoint leaves (t : tree) : list nat :=
  match t with
  | Leaf i => [i]
  | Node _ cs => flat_map leaves cs
  end.
Definition leaves_of (ms : list tree) : list nat := flat_map leaves ms.
