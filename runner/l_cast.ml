(* layer: the cast table.  K <site> <tag> <form>  ->  unchecked | notadmitted | ok | panic | panic-known
   site: index 0..17 in declaration order; tag: base index 0..10 | P (property of primitive) | F (function) | V
   form: uri relation transfer content object ranges property prim op array string number status lambda recursion,
         prefixed by any number of "ref:" *)
open Conv
open Tag
open Cast

let sites = [| SDomain; SRange; SRelUri; SRelXfer; SResource; SUriVar; SBody; SMedia; SHeaders; SStatus; SObjProp;
               SOperand; SRangeOperand; SUnary; SPropRhs; SLambda; SConcatArg; SRefTable |]
let bases = [| BText; BNumber; BStatus; BPrimitive; BRelation; BObject; BContent; BTransfer; BArray; BUri; BAny |]

let rec form_of (s : string) : form =
  if String.length s > 4 && String.sub s 0 4 = "ref:" then FRef (form_of (String.sub s 4 (String.length s - 4)))
  else
    match s with
    | "uri" -> FUri | "relation" -> FRelation | "transfer" -> FTransfer | "content" -> FContent
    | "object" -> FObject | "ranges" -> FRanges | "property" -> FProperty | "prim" -> FPrim | "op" -> FOp
    | "array" -> FArray | "string" -> FString | "number" -> FNumber | "status" -> FStatus
    | "lambda" -> FLambda | "recursion" -> FRecursion
    | _ -> failwith "form"

let tag_of (s : string) : tag =
  match s with
  | "P" -> TProperty (TBase BPrimitive)
  | "F" -> TFunc ([ TBase BPrimitive ], TBase BObject)
  | "V" -> TVar BinNums.N0
  | _ -> TBase bases.(int_of_string s)

let run () =
  each_line (fun line ->
      match words line with
      | [ "K"; s; t; k ] ->
          let s = sites.(int_of_string s) and t = tag_of t and k = form_of k in
          if not (check s t) then print_endline "unchecked"
          else if not (admits t k) then print_endline "notadmitted"
          else if cast_ok s k then print_endline "ok"
          else if known s k then print_endline "panic-known"
          else print_endline "panic"
      | _ -> print_endline "?")
