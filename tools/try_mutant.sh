#!/bin/sh
# tools/try_mutant.sh <patch.diff> <Cxx> [<Cyy> ...] : apply a seeded change to /repo, run the
# quick checks, always undo it. Prints the verdict lines.
patch="$1"; shift
cd /repo || exit 2
if ! git apply --check "$patch" 2>/dev/null; then echo "PATCH DOES NOT APPLY: $patch"; exit 2; fi
git apply "$patch"
# the evidence files describe the unchanged tree: keep them aside while a change is applied
rm -rf /verif/.cache/evidence_keep && cp -r /verif/evidence /verif/.cache/evidence_keep
trap 'rm -rf /verif/evidence && mv /verif/.cache/evidence_keep /verif/evidence; git -C /repo checkout -- . >/dev/null 2>&1; cd /verif && python3 -c "from vlib import core; core.ensure_harness(); core.ensure_repo_bins()" >/dev/null 2>&1' EXIT INT TERM
cd /verif
for p in "$@"; do
  out=$(./check "$p" 2>&1); rc=$?
  echo "== $p rc=$rc"; echo "$out" | grep -E 'VIOLATION|KNOWN-FINDING|\[C[0-9]+\]' | head -8
done
