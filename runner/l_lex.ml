(* layer lex: the tokenizer model. Input: the code points of a text, space separated.
   Output: "k:start:end ..." (byte offsets) or "none" when some position matches no pattern *)
open Conv

let run () =
  each_line (fun line ->
      let cps = Stdlib.List.map n_of_int (ints (words line)) in
      match Lexer.tokenize cps with
      | None -> print_endline "none"
      | Some toks ->
          let sp = Lexer.spans toks cps BinNums.N0 in
          print_endline
            (String.concat " "
               (Stdlib.List.map (fun ((k, s), e) -> Printf.sprintf "%d:%d:%d" (int_of_n k) (int_of_n s) (int_of_n e)) sp)))
