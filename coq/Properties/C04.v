From Oal Require Import Tag.
Theorem C04_placeholder : True. Proof. exact I. Qed.
Print Assumptions C04_placeholder.
