(** Proofs about Model/Unify.v (property C07): the substitution built by [unify]
    stays triangular (hence acyclic), [reduce] terminates on triangular
    substitutions with an explicit fuel bound, and accepted equation systems are
    solved by the resulting substitution. *)
From Coq Require Import Lia Arith PeanoNat.
From Oal Require Import Tag Unify.

(** * induction principle for the nested type *)
Section TagInd.
  Variable P : tag -> Prop.
  Hypothesis Hb : forall b, P (TBase b).
  Hypothesis Hp : forall t, P t -> P (TProperty t).
  Hypothesis Hf : forall bs r, Forall P bs -> P r -> P (TFunc bs r).
  Hypothesis Hv : forall v, P (TVar v).
  Fixpoint tag_ind' (t : tag) : P t :=
    match t with
    | TBase b => Hb b
    | TProperty t' => Hp t' (tag_ind' t')
    | TFunc bs r =>
        Hf bs r
          ((fix go (l : list tag) : Forall P l :=
              match l with
              | [] => Forall_nil P
              | x :: l' => Forall_cons x (tag_ind' x) (go l')
              end) bs)
          (tag_ind' r)
    | TVar v => Hv v
    end.
End TagInd.

(** * tag equality *)
Fixpoint forall2b (f : tag -> tag -> bool) (xs ys : list tag) : bool :=
  match xs, ys with
  | [], [] => true
  | p :: xs', q :: ys' => f p q && forall2b f xs' ys'
  | _, _ => false
  end.

Lemma tag_eqb_func xs x ys y :
  tag_eqb (TFunc xs x) (TFunc ys y) = forall2b tag_eqb xs ys && tag_eqb x y.
Proof.
  cbn [tag_eqb]. f_equal. revert ys. induction xs as [|p xs IH]; intros [|q ys]; cbn [forall2b]; try reflexivity.
  rewrite IH. reflexivity.
Qed.

Lemma base_eqb_eq a b : base_eqb a b = true -> a = b.
Proof. destruct a, b; cbn; congruence. Qed.

Lemma tag_eqb_eq : forall a b, tag_eqb a b = true -> a = b.
Proof.
  induction a as [x|x IH|xs x IHxs IHx|v] using tag_ind'; intros [y|y|ys y|w] H; try discriminate H.
  - cbn in H. f_equal. apply base_eqb_eq, H.
  - cbn [tag_eqb] in H. f_equal. apply IH, H.
  - rewrite tag_eqb_func in H. apply andb_true_iff in H. destruct H as [H1 H2].
    f_equal; [|apply IHx, H2].
    clear IHx H2. revert ys H1. induction IHxs as [|p xs Hp _ IH]; intros [|q ys] H1; try discriminate H1; [reflexivity|].
    cbn [forall2b] in H1. apply andb_true_iff in H1. destruct H1 as [Ha Hb].
    f_equal; [apply Hp, Ha | apply IH, Hb].
  - cbn in H. apply N.eqb_eq in H. congruence.
Qed.

(** * applying a triangular substitution, oldest binding first *)
Fixpoint apply_one (v : N) (s : tag) (t : tag) : tag :=
  match t with
  | TVar w => if N.eqb w v then s else t
  | TFunc bs r => TFunc (map (apply_one v s) bs) (apply_one v s r)
  | TProperty t' => TProperty (apply_one v s t')
  | TBase _ => t
  end.

Fixpoint apply (s : subst) (t : tag) : tag :=
  match s with
  | [] => t
  | (v, u) :: older => apply_one v u (apply older t)
  end.

Definition reduced (s : subst) (t : tag) : Prop :=
  forall w, occurs w t = true -> lookup s w = None.

(** triangular: each bound term was fully reduced with respect to the older
    bindings and does not contain its own variable, which was unbound *)
Fixpoint TRI (s : subst) : Prop :=
  match s with
  | [] => True
  | (v, u) :: older => TRI older /\ lookup older v = None /\ occurs v u = false /\ reduced older u
  end.

Lemma existsb_false_Forall {A} (f : A -> bool) l :
  existsb f l = false -> Forall (fun x => f x = false) l.
Proof.
  induction l as [|x l IH]; cbn [existsb]; intros H; constructor.
  - destruct (f x); [discriminate|reflexivity].
  - apply IH. destruct (f x); [discriminate|exact H].
Qed.

Lemma apply_one_id v s : forall t, occurs v t = false -> apply_one v s t = t.
Proof.
  induction t as [x|x IH|xs x IHxs IHx|w] using tag_ind'; cbn [occurs apply_one]; intros H.
  - reflexivity.
  - f_equal. apply IH, H.
  - apply orb_false_iff in H. destruct H as [H1 H2]. f_equal; [|apply IHx, H1].
    apply existsb_false_Forall in H2.
    induction IHxs as [|p xs Hp _ IH]; [reflexivity|].
    inversion H2; subst. cbn [map]. f_equal; [apply Hp; assumption | apply IH; assumption].
  - rewrite N.eqb_sym. rewrite H. reflexivity.
Qed.

Lemma occurs_var v : occurs v (TVar v) = true.
Proof. cbn. apply N.eqb_refl. Qed.

Lemma apply_reduced s : forall t, reduced s t -> apply s t = t.
Proof.
  induction s as [|[v u] older IH]; intros t H; [reflexivity|].
  cbn [apply]. rewrite IH.
  - apply apply_one_id. destruct (occurs v t) eqn:E; [|reflexivity].
    specialize (H v E). cbn [lookup] in H. rewrite N.eqb_refl in H. discriminate.
  - intros w Hw. specialize (H w Hw). cbn [lookup] in H. destruct (N.eqb w v); [discriminate|exact H].
Qed.

Lemma apply_base s b : apply s (TBase b) = TBase b.
Proof. induction s as [|[v u] older IH]; cbn [apply]; [reflexivity|]. rewrite IH. reflexivity. Qed.

Lemma apply_property s t : apply s (TProperty t) = TProperty (apply s t).
Proof. induction s as [|[v u] older IH]; cbn [apply]; [reflexivity|]. rewrite IH. reflexivity. Qed.

Lemma apply_func s bs r : apply s (TFunc bs r) = TFunc (map (apply s) bs) (apply s r).
Proof.
  induction s as [|[v u] older IH]; cbn [apply].
  - rewrite map_id. reflexivity.
  - rewrite IH. cbn [apply_one]. rewrite map_map. reflexivity.
Qed.

Lemma apply_var_unbound s v : lookup s v = None -> apply s (TVar v) = TVar v.
Proof.
  induction s as [|[w u] older IH]; cbn [apply lookup]; intros H; [reflexivity|].
  destruct (N.eqb v w) eqn:E; [discriminate|]. rewrite IH by exact H. cbn [apply_one]. rewrite E. reflexivity.
Qed.

Lemma apply_var_bound s : forall v t, TRI s -> lookup s v = Some t -> apply s (TVar v) = apply s t.
Proof.
  induction s as [|[w u] older IH]; intros v t Htri H; [discriminate|].
  destruct Htri as (Htri & Hw & Hocc & Hred).
  cbn [lookup] in H. cbn [apply]. destruct (N.eqb v w) eqn:E.
  - apply N.eqb_eq in E. subst w. inversion H; subst t.
    rewrite apply_var_unbound by exact Hw. cbn [apply_one]. rewrite N.eqb_refl.
    rewrite (apply_reduced older u Hred). rewrite apply_one_id by exact Hocc. reflexivity.
  - rewrite (IH v t Htri H). reflexivity.
Qed.

Lemma apply_app new s t : apply (new ++ s) t = apply new (apply s t).
Proof. induction new as [|[v u] new IH]; cbn [app apply]; [reflexivity|]. rewrite IH. reflexivity. Qed.

(** * reduce computes [apply] on triangular substitutions *)

Lemma map_opt_Forall2 {A B} (f : A -> option B) : forall l l',
  map_opt f l = Some l' -> Forall2 (fun x y => f x = Some y) l l'.
Proof.
  induction l as [|x l IH]; cbn [map_opt]; intros l' H.
  - inversion H. constructor.
  - destruct (f x) eqn:E; [|discriminate]. destruct (map_opt f l) eqn:E2; [|discriminate].
    inversion H; subst. constructor; [exact E | apply IH; reflexivity].
Qed.

Lemma occurs_func w bs r : occurs w (TFunc bs r) = occurs w r || existsb (occurs w) bs.
Proof. reflexivity. Qed.

Lemma reduce_apply s : TRI s -> forall n t r,
  reduce n s t = Some r -> r = apply s t /\ reduced s r.
Proof.
  intros Htri. induction n as [|n IH]; intros t r H; [discriminate|].
  destruct t as [b|t'|bs t'|v]; cbn [reduce] in H.
  - inversion H; subst. rewrite apply_base. split; [reflexivity|]. intros w Hw. discriminate.
  - destruct (reduce n s t') as [r'|] eqn:E; [|discriminate]. inversion H; subst.
    destruct (IH _ _ E) as [E1 E2]. rewrite apply_property, <- E1. split; [reflexivity|].
    intros w Hw. apply E2. exact Hw.
  - destruct (map_opt (reduce n s) bs) as [bs'|] eqn:Ebs; [|discriminate].
    destruct (reduce n s t') as [r'|] eqn:Er; [|discriminate]. inversion H; subst.
    destruct (IH _ _ Er) as [E1 E2]. apply map_opt_Forall2 in Ebs.
    assert (Hbs : bs' = map (apply s) bs /\ Forall (reduced s) bs').
    { clear -Ebs IH. induction Ebs as [|x y l l' Hxy _ IHl]; [split; [reflexivity|constructor]|].
      destruct (IH _ _ Hxy) as [Ea Eb]. destruct IHl as [Ec Ed]. cbn [map]. subst. split; [reflexivity|].
      constructor; assumption. }
    destruct Hbs as [Hbs1 Hbs2]. rewrite apply_func, <- E1, <- Hbs1. split; [reflexivity|].
    intros w Hw. rewrite occurs_func in Hw. apply orb_true_iff in Hw. destruct Hw as [Hw|Hw].
    + apply E2, Hw.
    + apply existsb_exists in Hw. destruct Hw as [x [Hin Hx]].
      rewrite Forall_forall in Hbs2. apply (Hbs2 x Hin), Hx.
  - destruct (lookup s v) as [t'|] eqn:E.
    + destruct (IH _ _ H) as [E1 E2]. split; [|exact E2].
      rewrite (apply_var_bound s v t' Htri E). exact E1.
    + inversion H; subst. rewrite apply_var_unbound by exact E. split; [reflexivity|].
      intros w Hw. cbn in Hw. apply N.eqb_eq in Hw. subst. exact E.
Qed.

(** * reduce terminates on triangular substitutions: explicit fuel bound *)

Fixpoint depth (t : tag) : nat :=
  match t with
  | TFunc bs r => S (Nat.max (depth r) (fold_right (fun b acc => Nat.max (depth b) acc) 0 bs))
  | TProperty t' => S (depth t')
  | _ => 0
  end.

Fixpoint cost (s : subst) : nat :=
  match s with [] => 0 | (_, u) :: s' => S (depth u) + cost s' end.

Lemma cost_app a b : cost (a ++ b) = cost a + cost b.
Proof. induction a as [|[v u] a IH]; cbn [app cost]; lia. Qed.

Lemma lookup_split s : forall v t, lookup s v = Some t ->
  exists n1 n2, s = n1 ++ (v, t) :: n2 /\ lookup n1 v = None.
Proof.
  induction s as [|[w u] s IH]; intros v t H; [discriminate|].
  cbn [lookup] in H. destruct (N.eqb v w) eqn:E.
  - apply N.eqb_eq in E. subst. inversion H; subst. exists [], s. split; reflexivity.
  - destruct (IH v t H) as [n1 [n2 [E1 E2]]]. exists ((w, u) :: n1), n2. subst. split; [reflexivity|].
    cbn [lookup]. rewrite E. exact E2.
Qed.

Lemma TRI_app_inv a b : TRI (a ++ b) -> TRI b.
Proof. induction a as [|[v u] a IH]; [trivial|]. cbn [app TRI]. intros H. apply IH, H. Qed.

Lemma lookup_app_none a b v : lookup (a ++ b) v = None -> lookup a v = None /\ lookup b v = None.
Proof.
  induction a as [|[w u] a IH]; cbn [app lookup]; [auto|].
  destruct (N.eqb v w); [discriminate|apply IH].
Qed.

Lemma lookup_app_r a b v : lookup a v = None -> lookup (a ++ b) v = lookup b v.
Proof.
  induction a as [|[w u] a IH]; cbn [app lookup]; [reflexivity|].
  destruct (N.eqb v w); [discriminate|apply IH].
Qed.

Lemma map_opt_some {A B} (f : A -> option B) l :
  Forall (fun x => f x <> None) l -> map_opt f l <> None.
Proof.
  induction 1 as [|x l Hx _ IH]; cbn [map_opt]; [discriminate|].
  destruct (f x); [|contradiction]. destruct (map_opt f l); [discriminate|contradiction].
Qed.

Lemma fold_max_ge bs : forall b, In b bs ->
  depth b <= fold_right (fun b acc => Nat.max (depth b) acc) 0 bs.
Proof.
  induction bs as [|x bs IH]; intros b H; [destruct H|]. destruct H as [H|H]; cbn [fold_right].
  - subst. lia.
  - specialize (IH b H). lia.
Qed.

(** strong induction on the number of bindings still usable *)
Lemma reduce_total_aux : forall k newer older,
  length newer = k -> TRI (newer ++ older) ->
  forall t, (forall w, occurs w t = true -> lookup older w = None) ->
  forall m, 1 + depth t + cost newer <= m -> reduce m (newer ++ older) t <> None.
Proof.
  induction k as [k IHk] using lt_wf_ind. intros newer older Hlen Htri.
  induction t as [b|t' IH|bs t' IHbs IHr|v] using tag_ind'; intros Hold m Hm;
    (destruct m as [|m]; [lia|]); cbn [reduce].
  - discriminate.
  - cbn [depth] in Hm. specialize (IH Hold m ltac:(lia)).
    destruct (reduce m (newer ++ older) t'); [discriminate|contradiction].
  - cbn [depth] in Hm.
    assert (Hr : reduce m (newer ++ older) t' <> None).
    { apply IHr; [|lia]. intros w Hw. apply Hold. rewrite occurs_func, Hw. reflexivity. }
    assert (Hb : map_opt (reduce m (newer ++ older)) bs <> None).
    { apply map_opt_some. rewrite Forall_forall in *. intros x Hin. apply IHbs; [exact Hin| |].
      - intros w Hw. apply Hold. rewrite occurs_func. apply orb_true_iff. right.
        apply existsb_exists. exists x. split; assumption.
      - pose proof (fold_max_ge bs x Hin). lia. }
    destruct (map_opt (reduce m (newer ++ older)) bs); [|contradiction].
    destruct (reduce m (newer ++ older) t'); [discriminate|contradiction].
  - destruct (lookup (newer ++ older) v) as [u|] eqn:E; [|discriminate].
    (* v is bound: it must be bound in [newer] *)
    assert (Hin : lookup newer v <> None).
    { intros Hn. rewrite (lookup_app_r _ _ _ Hn) in E. rewrite (Hold v (occurs_var v)) in E. discriminate. }
    destruct (lookup newer v) as [u'|] eqn:En; [|contradiction].
    destruct (lookup_split _ _ _ En) as [n1 [n2 [Es Hn1]]].
    assert (Eu : u = u').
    { subst newer. rewrite <- app_assoc in E. rewrite (lookup_app_r _ _ _ Hn1) in E.
      cbn [app lookup] in E. rewrite N.eqb_refl in E. congruence. }
    subst u'. subst newer.
    rewrite <- app_assoc in *. cbn [app] in *.
    (* u only mentions variables bound in n1 *)
    pose proof (TRI_app_inv _ _ Htri) as Htri2. cbn [TRI] in Htri2.
    destruct Htri2 as (_ & _ & Hocc & Hred).
    apply (IHk (length n1)) with (newer := n1) (older := (v, u) :: n2 ++ older).
    + rewrite app_length in Hlen. cbn [length] in Hlen. lia.
    + reflexivity.
    + exact Htri.
    + intros w Hw. cbn [lookup]. destruct (N.eqb w v) eqn:Ewv.
      * apply N.eqb_eq in Ewv. subst. congruence.
      * apply Hred, Hw.
    + rewrite cost_app in Hm. cbn [cost depth] in Hm. lia.
Qed.

Theorem reduce_total s t : TRI s -> forall m, 1 + depth t + cost s <= m -> reduce m s t <> None.
Proof.
  intros Htri m Hm. pose proof (reduce_total_aux (length s) s [] eq_refl) as H.
  rewrite app_nil_r in H. apply H; [exact Htri | reflexivity | exact Hm].
Qed.

(** * soundness and preservation of triangularity *)

Definition extends (s s' : subst) : Prop := exists new, s' = new ++ s.

Lemma extends_refl s : extends s s.
Proof. exists []. reflexivity. Qed.

Lemma extends_trans a b c : extends a b -> extends b c -> extends a c.
Proof. intros [n1 E1] [n2 E2]. exists (n2 ++ n1). subst. rewrite app_assoc. reflexivity. Qed.

Lemma extends_eq a b l r : extends a b -> apply a l = apply a r -> apply b l = apply b r.
Proof. intros [n E] H. subst. rewrite !apply_app, H. reflexivity. Qed.

Definition unify_spec (s : subst) (l r : tag) (s' : subst) : Prop :=
  TRI s' /\ extends s s' /\ apply s' l = apply s' r.

Lemma bind_ok s v u l r :
  TRI s -> apply s l = TVar v -> apply s r = u ->
  reduced s (TVar v) -> reduced s u -> occurs v u = false ->
  unify_spec s l r ((v, u) :: s).
Proof.
  intros Htri El Er Hv Hu Hocc. split; [|split].
  - cbn [TRI]. repeat split; try assumption. apply Hv, occurs_var.
  - exists [(v, u)]. reflexivity.
  - cbn [apply]. rewrite El, Er. cbn [apply_one]. rewrite N.eqb_refl.
    rewrite apply_one_id by exact Hocc. reflexivity.
Qed.

Lemma unify_sound : forall n s l r s',
  TRI s -> unify n s l r = UOk s' -> unify_spec s l r s'.
Proof.
  unfold unify.
  induction n as [|n IH]; intros s l r s' Htri H; [discriminate|].
  cbn [unify_gen] in H.
  destruct (reduce n s l) as [l'|] eqn:El; [|discriminate].
  destruct (reduce n s r) as [r'|] eqn:Er; [|discriminate].
  destruct (reduce_apply s Htri _ _ _ El) as [El1 El2].
  destruct (reduce_apply s Htri _ _ _ Er) as [Er1 Er2].
  destruct (tag_eqb l' r') eqn:Eeq.
  { inversion H; subst s'. apply tag_eqb_eq in Eeq. split; [exact Htri|]. split; [apply extends_refl|]. congruence. }
  assert (Hvl : forall v, l' = TVar v -> occurs v r' = false -> unify_spec s l r ((v, r') :: s)).
  { intros v E Ho.
    apply bind_ok; [exact Htri | congruence | congruence | rewrite <- E; exact El2 | exact Er2 | exact Ho]. }
  assert (Hvr : forall v, r' = TVar v -> occurs v l' = false -> unify_spec s l r ((v, l') :: s)).
  { intros v E Ho.
    assert (X : unify_spec s r l ((v, l') :: s)).
    { apply bind_ok; [exact Htri | congruence | congruence | rewrite <- E; exact Er2 | exact El2 | exact Ho]. }
    destruct X as (A & B & C).
    split; [exact A|]. split; [exact B|]. symmetry. exact C. }
  (* the structural cases share this reasoning: the reduced tags are fixed points of [apply s] *)
  assert (Hl : forall s2, extends s s2 -> apply s2 l = apply s2 l').
  { intros s2 [new E]. subst s2. rewrite !apply_app, <- El1. rewrite (apply_reduced s l' El2). reflexivity. }
  assert (Hr : forall s2, extends s s2 -> apply s2 r = apply s2 r').
  { intros s2 [new E]. subst s2. rewrite !apply_app, <- Er1. rewrite (apply_reduced s r' Er2). reflexivity. }
  destruct l' as [lb|lp|lbs lr|lv]; destruct r' as [rb|rp|rbs rr|rv]; try discriminate H;
    try (destruct (occurs _ _) eqn:Eo; [discriminate H|]; inversion H; subst s';
         first [ apply (Hvl _ eq_refl Eo) | apply (Hvr _ eq_refl Eo) ]).
  - (* Property / Property *)
    destruct (IH _ _ _ _ Htri H) as (A & B & C). split; [exact A|]. split; [exact B|].
    rewrite (Hl _ B), (Hr _ B), !apply_property, C. reflexivity.
  - (* Func / Func *)
    destruct (Nat.eqb (length lbs) (length rbs)) eqn:Elen; cbn [negb] in H; [|discriminate].
    apply Nat.eqb_eq in Elen.
    destruct (unify_gen occurs n s lr rr) as [s1| |] eqn:E1; try discriminate H.
    destruct (IH _ _ _ _ Htri E1) as (A1 & B1 & C1).
    assert (Hgo : forall ls rs s2 s3, TRI s2 -> length ls = length rs ->
              (fix go (s : subst) (ls rs : list tag) {struct ls} : ures :=
                 match ls with
                 | [] => UOk s
                 | a :: ls' =>
                     match rs with
                     | [] => UOk s
                     | b :: rs' => match unify_gen occurs n s a b with
                                   | UOk s' => go s' ls' rs'
                                   | UErr e => UErr e
                                   | UFuel => UFuel
                                   end
                     end
                 end) s2 ls rs = UOk s3 ->
              TRI s3 /\ extends s2 s3 /\ map (apply s3) ls = map (apply s3) rs).
    { induction ls as [|a ls IHls]; intros [|b rs] s2 s3 T L G; try discriminate L.
      - inversion G; subst. split; [exact T|]. split; [apply extends_refl|reflexivity].
      - destruct (unify_gen occurs n s2 a b) as [s2'| |] eqn:Eab; try discriminate G.
        destruct (IH _ _ _ _ T Eab) as (A & B & C).
        cbn [length] in L. injection L as L.
        destruct (IHls rs s2' s3 A L G) as (A' & B' & C').
        split; [exact A'|]. split; [eapply extends_trans; eassumption|].
        cbn [map]. f_equal; [|exact C']. exact (extends_eq _ _ _ _ B' C). }
    destruct (Hgo lbs rbs s1 s' A1 Elen H) as (A2 & B2 & C2).
    split; [exact A2|]. pose proof (extends_trans _ _ _ B1 B2) as B. split; [exact B|].
    rewrite (Hl _ B), (Hr _ B), !apply_func, C2. f_equal.
    exact (extends_eq _ _ _ _ B2 C1).
Qed.

Definition solves (s : subst) (eqs : list (tag * tag)) : Prop :=
  Forall (fun e => apply s (fst e) = apply s (snd e)) eqs.

Theorem unify_all_sound : forall n eqs s i s' j,
  TRI s -> unify_all n s eqs i = (UOk s', j) ->
  TRI s' /\ extends s s' /\ solves s' eqs.
Proof.
  unfold unify_all.
  induction eqs as [|[l r] eqs IH]; intros s i s' j Htri H; cbn [unify_all_gen] in H.
  - inversion H; subst. split; [exact Htri|]. split; [apply extends_refl|constructor].
  - destruct (unify_gen occurs n s l r) as [s1| |] eqn:E; try (inversion H; fail).
    destruct (unify_sound _ _ _ _ _ Htri E) as (A & B & C).
    destruct (IH _ _ _ _ A H) as (A' & B' & C').
    split; [exact A'|]. split; [eapply extends_trans; eassumption|].
    constructor; [|exact C']. cbn [fst snd]. eapply extends_eq; eassumption.
Qed.

(** what inference leaves behind is triangular, so the [substitute] phase (one
    [reduce] per syntax node) terminates within the explicit fuel bound *)
Corollary substitute_total n eqs s' j t :
  unify_all n [] eqs 0 = (UOk s', j) ->
  forall m, 1 + depth t + cost s' <= m -> exists r, reduce m s' t = Some r /\ r = apply s' t.
Proof.
  intros H m Hm. destruct (unify_all_sound n eqs [] 0%N s' j I H) as (A & _ & _).
  pose proof (reduce_total s' t A m Hm) as Hn.
  destruct (reduce m s' t) as [r|] eqn:E; [|contradiction].
  exists r. split; [reflexivity|]. apply (reduce_apply s' A _ _ _ E).
Qed.

(** the solution is idempotent on its own image: applying it twice changes nothing more *)
Lemma occurs_apply_one v u : forall t, occurs v u = false -> occurs v (apply_one v u t) = false.
Proof.
  intros t Hu. induction t as [b|t' IH|bs t' IHbs IHr|w] using tag_ind'; cbn [apply_one occurs].
  - reflexivity.
  - exact IH.
  - rewrite IHr. cbn [orb]. induction IHbs as [|x l Hx _ IHl]; [reflexivity|].
    cbn [map existsb]. rewrite Hx, IHl. reflexivity.
  - destruct (N.eqb w v) eqn:E; [exact Hu|]. cbn [occurs]. rewrite N.eqb_sym. exact E.
Qed.

(** * the pinned tree's occurs check let a cyclic binding through (F2) *)
Lemma reduce_diverges_pinned :
  unify_gen occurs_pinned 3 [] (TVar 0) (TProperty (TVar 0)) = UOk [(0%N, TProperty (TVar 0))]
  /\ forall n, reduce n [(0%N, TProperty (TVar 0))] (TVar 0) = None.
Proof.
  split; [reflexivity|].
  assert (H : forall n, reduce n [(0%N, TProperty (TVar 0))] (TVar 0) = None
                        /\ reduce n [(0%N, TProperty (TVar 0))] (TProperty (TVar 0)) = None).
  { induction n as [|n [IH1 IH2]]; [split; reflexivity|]. split.
    - cbn [reduce lookup]. cbn. exact IH2.
    - cbn [reduce]. rewrite IH1. reflexivity. }
  intros n. apply H.
Qed.

(** the fixed check rejects it *)
Lemma self_property_rejected :
  unify 3 [] (TVar 0) (TProperty (TVar 0)) = UErr ERecursive.
Proof. reflexivity. Qed.

(** occurs is exactly "the variable appears in the tag" *)
Fixpoint vars (t : tag) : list N :=
  match t with
  | TVar v => [v]
  | TFunc bs r => vars r ++ flat_map vars bs
  | TProperty t' => vars t'
  | TBase _ => []
  end.

Lemma occurs_vars v : forall t, occurs v t = true <-> In v (vars t).
Proof.
  induction t as [b|t' IH|bs t' IHbs IHr|w] using tag_ind'; cbn [occurs vars].
  - split; [discriminate|contradiction].
  - exact IH.
  - rewrite orb_true_iff, in_app_iff, IHr. apply or_iff_compat_l.
    rewrite existsb_exists, in_flat_map. rewrite Forall_forall in IHbs.
    split; intros [x [Hin Hx]]; exists x; (split; [exact Hin|]); apply (IHbs x Hin); exact Hx.
  - rewrite N.eqb_eq. cbn. split; [intros ->; left; reflexivity | intros [H|[]]; congruence].
Qed.
