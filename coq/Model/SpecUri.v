(** Model of the parts of spec.rs / oal-openapi that decide the structural clauses of C03:
    [Uri::pattern], [Builder::uri_params] (path part), [Builder::xfer_id],
    [HttpStatus::try_from] and [Builder::http_status_code]. Strings are lists of code points. *)
From Coq Require Export List NArith Bool.
Export ListNotations.
Open Scope N_scope.

Definition str := list N.
Definition LB : N := 123.   (* { *)
Definition RB : N := 125.   (* } *)
Definition SLASH : N := 47.
Definition DASH : N := 45.

Inductive useg := SLit (s : str) | SVar (name : str).

(** Uri::pattern: "/" + literal, or "/" + "{" + name + "}" *)
Fixpoint pattern (segs : list useg) : str :=
  match segs with
  | [] => []
  | SLit l :: r => SLASH :: l ++ pattern r
  | SVar n :: r => SLASH :: LB :: n ++ RB :: pattern r
  end.

(** Builder::uri_params, path part: one required `in: path` parameter per variable segment *)
Fixpoint path_params (segs : list useg) : list str :=
  match segs with
  | [] => []
  | SLit _ :: r => path_params r
  | SVar n :: r => n :: path_params r
  end.

(** what a reader of the document sees: the {name} occurrences of a path key *)
Fixpoint braces (s : str) (cur : option str) : list str :=
  match s with
  | [] => []
  | c :: r =>
      match cur with
      | None => if N.eqb c LB then braces r (Some []) else braces r None
      | Some acc => if N.eqb c RB then rev acc :: braces r None else braces r (Some (c :: acc))
      end
  end.

Definition no_char (x : N) (s : str) : bool := forallb (fun c => negb (N.eqb c x)) s.

(** guaranteed by the lexer: path segments are [0-9a-zA-Z%~_.-]+, property names [0-9a-zA-Z$@_-]+ *)
Definition wf_seg (s : useg) : bool :=
  match s with
  | SLit l => no_char LB l
  | SVar n => no_char RB n
  end.

(** HTTP statuses *)
Inductive http_status := Code (c : N) | Range (r : N).

(** HttpStatus::try_from(u64) *)
Definition status_of_number (v : N) : option http_status :=
  if N.leb 100 v && N.leb v 599 then Some (Code v) else None.

(** lexer: [1-5]XX, first character c in '1'..'5' *)
Definition status_of_literal (c : N) : option http_status :=
  if N.leb 49 c && N.leb c 53 then Some (Range (c - 48)) else None.

Inductive rkey := KDefault | KCode (c : N) | KRange (r : N).

(** Builder::http_status_code + the `default` slot for status-less contents *)
Definition response_key (s : option http_status) : rkey :=
  match s with None => KDefault | Some (Code c) => KCode c | Some (Range r) => KRange r end.

Definition valid_key (k : rkey) : bool :=
  match k with
  | KDefault => true
  | KCode c => N.leb 100 c && N.leb c 599
  | KRange r => N.leb 1 r && N.leb r 5
  end.

(** Builder::xfer_id without an explicit operationId: method label, then one label per
    segment ("root" for the empty literal), joined by "-"; labels are lower-cased *)
Definition lower (c : N) : N := if N.leb 65 c && N.leb c 90 then c + 32 else c.
Definition ROOT : str := [114; 111; 111; 116].
Definition seg_label (s : useg) : str :=
  match s with
  | SLit [] => ROOT
  | SLit l => map lower l
  | SVar n => map lower n
  end.
Fixpoint join_dash (ls : list str) : str :=
  match ls with [] => [] | [l] => l | l :: r => l ++ DASH :: join_dash r end.
Definition xfer_id (method : str) (segs : list useg) : str := join_dash (method :: map seg_label segs).
