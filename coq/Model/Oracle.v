(** C06: everything the executable model leaves open is an explicit oracle. The one hash
    collection the emitter used to iterate (the [examples] of a content, a std HashMap on
    the pinned tree) is modelled with an iteration-order oracle; after the fix (IndexMap)
    the emitter walks the entries in source order and no oracle is left in the model. *)
From Coq Require Export List NArith Bool.
Export ListNotations.

Definition str := list N.
Definition examples := list (str * str).           (* (name, url) in source order *)

(** Builder::content_examples after the fix: entries in insertion (source) order *)
Definition content_examples (ex : examples) : list (str * str) :=
  map (fun e => (fst e, snd e)) ex.

(** the pinned tree: the HashMap iterator yields the entries in an order chosen by the
    process (RandomState); [o] is that choice *)
Definition content_examples_pinned (o : examples -> examples) (ex : examples) : list (str * str) :=
  map (fun e => (fst e, snd e)) (o ex).

(** scope identifiers: a per-evaluation counter starting at 0 (eval::Context::push_scope);
    the trace of ids handed out for [n] pushes *)
Fixpoint scope_ids (n : nat) (next : N) : list N :=
  match n with O => [] | S n' => (next + 1)%N :: scope_ids n' (next + 1)%N end.

(** two successive evaluations in one process: each starts from a fresh Context *)
Definition ids_of_run (pushes : nat) : list N := scope_ids pushes 0.
(** a process-wide counter (the seeded mutation): the second run continues the sequence *)
Definition ids_of_second_run_static (pushes1 pushes2 : nat) : list N :=
  scope_ids pushes2 (N.of_nat pushes1).
