(* layer L6u: URI patterns, path parameters, derived operationIds, status keys.
   U <method> <seg>*     seg = L:<text> | V:<name>   (L: alone is the empty literal)
     -> <pattern> | <path params, comma separated> | <operationId>
   S <number>            -> code:<n> | none
   X <first char code>   -> range:<r> | none *)
open Conv
open SpecUri

let str_of (s : string) = Stdlib.List.init (String.length s) (fun i -> n_of_int (Char.code s.[i]))
let to_s (l : BinNums.coq_N list) = String.concat "" (Stdlib.List.map (fun c -> String.make 1 (Char.chr (int_of_n c))) l)

let run () =
  each_line (fun line ->
      match words line with
      | "U" :: m :: segs ->
          let segs =
            Stdlib.List.map
              (fun w ->
                let body = String.sub w 2 (String.length w - 2) in
                if w.[0] = 'L' then SLit (str_of body) else SVar (str_of body))
              segs
          in
          Printf.printf "%s | %s | %s\n" (to_s (pattern segs))
            (String.concat "," (Stdlib.List.map to_s (path_params segs)))
            (to_s (xfer_id (str_of m) segs))
      | [ "S"; n ] -> (
          match status_of_number (n_of_int (int_of_string n)) with
          | Some (Code c) -> Printf.printf "code:%d\n" (int_of_n c)
          | _ -> print_endline "none")
      | [ "X"; c ] -> (
          match status_of_literal (n_of_int (int_of_string c)) with
          | Some (Range r) -> Printf.printf "range:%d\n" (int_of_n r)
          | _ -> print_endline "none")
      | _ -> print_endline "?")
