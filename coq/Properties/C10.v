(** Property C10 — modules load once, compile after their imports, import cycles
    are errors. Statements only; proofs in Proofs/LoaderProofs.v. All theorems hold
    for every file system [fs] (any number of modules), every [compile_ok] and every
    [topo] that meets the contract of petgraph's toposort ([topo_spec]). *)
From Oal Require Import Loader LoaderProofs.

Theorem C10_load_once_and_after_imports :
  forall fs compile_ok topo, topo_spec topo -> forall fuel base mods tr,
  load fs compile_ok topo fuel base = LOk mods tr ->
  NoDup (loads tr) /\ (forall l, In l (loads tr) <-> reachable fs base l) /\
  parses tr = loads tr /\
  NoDup (compiles tr) /\ (forall l, In l (compiles tr) <-> reachable fs base l) /\
  (forall n t, reachable fs base n -> In t (imports_of fs n) -> before t n (rev (compiles tr))) /\
  (forall l, reachable fs base l -> good fs l) /\
  (forall es, (forall a b, In (a, b) es <-> (reachable fs base b /\ In a (imports_of fs b))) ->
              forall a, ~ path es a a).
Proof. exact load_ok_spec. Qed.
Print Assumptions C10_load_once_and_after_imports.

Theorem C10_cycle_is_error :
  forall fs compile_ok topo, topo_spec topo -> forall fuel base l tr,
  load fs compile_ok topo fuel base = LErr (ErrCycle l) tr ->
  reachable fs base l /\ compiles tr = [] /\
  exists es, (forall a b, In (a, b) es -> reachable fs base b /\ In a (imports_of fs b)) /\ path es l l.
Proof. exact load_cycle_spec. Qed.
Print Assumptions C10_cycle_is_error.

Theorem C10_missing_import_reported :
  forall fs compile_ok topo fuel base t n tr,
  load fs compile_ok topo fuel base = LErr (ErrInvalidModule t n) tr ->
  fs t = Missing /\ reachable fs base n /\ In t (imports_of fs n) /\ compiles tr = [].
Proof. exact load_missing_spec. Qed.
Print Assumptions C10_missing_import_reported.

Theorem C10_every_error_names_a_defect :
  forall fs compile_ok topo, topo_spec topo -> forall fuel base e tr,
  load fs compile_ok topo fuel base = LErr e tr -> defect fs compile_ok base e.
Proof. exact load_err_spec. Qed.
Print Assumptions C10_every_error_names_a_defect.

Theorem C10_nothing_compiled_on_load_errors :
  forall fs compile_ok topo fuel base e tr,
  load fs compile_ok topo fuel base = LErr e tr -> (forall l, e <> ErrCompile l) -> compiles tr = [].
Proof. exact load_err_compiles. Qed.
Print Assumptions C10_nothing_compiled_on_load_errors.

Theorem C10_load_terminates :
  forall fs compile_ok topo base univ,
  In base univ -> (forall n, In n univ -> incl (imports_of fs n) univ) ->
  load fs compile_ok topo (S (S (length univ))) base <> LFuel.
Proof. exact load_terminates. Qed.
Print Assumptions C10_load_terminates.

Theorem C10_verdict_independent_of_use_order :
  forall fs fs' compile_ok topo topo' fuel fuel' base mods tr e tr',
  topo_spec topo -> topo_spec topo' -> same_files fs fs' ->
  load fs compile_ok topo fuel base = LOk mods tr ->
  load fs' compile_ok topo' fuel' base = LErr e tr' -> False.
Proof. exact load_use_order. Qed.
Print Assumptions C10_verdict_independent_of_use_order.

Theorem C10_join_dot : forall dir a b, join dir (a ++ Dot :: b) = join dir (a ++ b).
Proof. exact join_dot. Qed.
Print Assumptions C10_join_dot.

Theorem C10_join_name_up : forall dir a d b, join dir (a ++ Name d :: Up :: b) = join dir (a ++ b).
Proof. exact join_name_up. Qed.
Print Assumptions C10_join_name_up.

(** non-vacuity: a diamond loads, a 2-cycle is a cycle error (with the executable
    topological sort used by the runner) *)
Definition fs_diamond (n : N) : file :=
  match n with 0 => Good [1; 2] | 1 => Good [3] | 2 => Good [3; 3] | 3 => Good [] | _ => Missing end%N.
Definition fs_cycle (n : N) : file :=
  match n with 0 => Good [1] | 1 => Good [0] | _ => Missing end%N.

Example C10_diamond_loads :
  exists mods tr, load fs_diamond (fun _ => true) topo_kahn 10 0 = LOk mods tr
                  /\ rev (compiles tr) = [3; 1; 2; 0]%N.
Proof. eexists. eexists. vm_compute. split; reflexivity. Qed.

Example C10_cycle_detected :
  exists l tr, load fs_cycle (fun _ => true) topo_kahn 10 0 = LErr (ErrCycle l) tr.
Proof. eexists. eexists. vm_compute. reflexivity. Qed.
