(** Reference closure of the evaluator model: in the [Spec] of a successful evaluation every
    reference [SRef k] -- in the relations and in the schemas of the reference table -- names
    a key of the reference table, and every entry of the table holds a schema (none is left
    pending). This is the evaluator's half of "every $ref resolves". *)
From Oal Require Import Eval.
From Coq Require Import Lia.
Local Open Scope N_scope.

(** * the keys a value mentions *)
Fixpoint ks_schema (s : schema) : list rkey :=
  match s with Schema e _ _ _ _ => ks_sexpr e end
with ks_sexpr (e : sexpr) : list rkey :=
  match e with
  | SRel r => ks_relation r
  | SUri u => ks_uri u
  | SArr i => ks_schema i
  | SObj ps => flat_map ks_property ps
  | SOp _ ss => flat_map ks_schema ss
  | SRef k => [k]
  | _ => []
  end
with ks_property (p : property) : list rkey :=
  match p with Prop_ _ s _ _ => ks_schema s end
with ks_uri (u : uri) : list rkey :=
  match u with
  | Uri path prm _ => flat_map ks_useg path ++ match prm with Some ps => flat_map ks_property ps | None => [] end
  end
with ks_useg (u : useg) : list rkey :=
  match u with ULit _ => [] | UVar p => ks_property p end
with ks_relation (r : relation) : list rkey :=
  match r with
  | Rel u xs => ks_uri u ++ flat_map (fun o => match o with Some t => ks_transfer t | None => [] end) xs
  end
with ks_transfer (t : transfer) : list rkey :=
  match t with
  | Xfer _ dom rg prm _ _ _ _ =>
      ks_content dom ++ flat_map (fun kc => match kc with (_, c) => ks_content c end) rg ++
      match prm with Some ps => flat_map ks_property ps | None => [] end
  end
with ks_content (c : content) : list rkey :=
  match c with
  | Content s _ _ hd _ _ =>
      match s with Some s' => ks_schema s' | None => [] end ++
      match hd with Some ps => flat_map ks_property ps | None => [] end
  end.

Definition ks_props (ps : list property) : list rkey := flat_map ks_property ps.
Definition ks_oprops (o : option (list property)) : list rkey := match o with Some ps => ks_props ps | None => [] end.
Definition ks_ranges (r : ranges) : list rkey := flat_map (fun kc : rgkey * content => ks_content (snd kc)) r.
Definition ks_xfers (xs : list (option transfer)) : list rkey :=
  flat_map (fun o => match o with Some t => ks_transfer t | None => [] end) xs.

Fixpoint ks_value (v : value) : list rkey :=
  match v with
  | VUri u => ks_uri u
  | VRel r => ks_relation r
  | VXfer t => ks_transfer t
  | VCont c => ks_content c
  | VObj ps => ks_props ps
  | VRanges r => ks_ranges r
  | VProp p => ks_property p
  | VPrim e => ks_sexpr e
  | VOp _ ss => flat_map ks_schema ss
  | VRef k v' _ => k :: ks_value v'
  | VArr i => ks_schema i
  | VRecur k => [k]
  | _ => []
  end.

Definition sub (l : list rkey) (D : rkey -> Prop) : Prop := forall k, In k l -> D k.

Lemma sub_app l1 l2 D : sub (l1 ++ l2) D <-> sub l1 D /\ sub l2 D.
Proof.
  unfold sub. split.
  - intros H. split; intros k Hk; apply H, in_or_app; auto.
  - intros [H1 H2] k Hk. apply in_app_or in Hk as [Hk|Hk]; auto.
Qed.

Lemma sub_nil D : sub [] D.
Proof. intros k []. Qed.

Lemma sub_flat_map {A} (f : A -> list rkey) l D : sub (flat_map f l) D <-> Forall (fun a => sub (f a) D) l.
Proof.
  induction l as [|a l IH]; cbn [flat_map].
  - split; [constructor|intros _; apply sub_nil].
  - rewrite sub_app, IH. split; [intros [H1 H2]; constructor; assumption|intros H; inversion H; auto].
Qed.

Lemma sub_mono l (D D' : rkey -> Prop) : (forall k, D k -> D' k) -> sub l D -> sub l D'.
Proof. intros H Hs k Hk. apply H, Hs, Hk. Qed.

(** the ranges type of [ks_transfer] written with [ks_ranges] *)
Lemma ks_transfer_eq ms dom rg prm d s tg i :
  ks_transfer (Xfer ms dom rg prm d s tg i) = ks_content dom ++ ks_ranges rg ++ ks_oprops prm.
Proof.
  cbn [ks_transfer]. f_equal. f_equal. unfold ks_ranges. apply flat_map_ext. intros [k c]. reflexivity.
Qed.

(** * casts do not invent keys *)
Lemma cast_schema_ks v a sc D : cast_schema (v, a) = Ok sc -> sub (ks_value v) D -> sub (ks_schema sc) D.
Proof.
  intros H Hs. destruct v; cbn [cast_schema] in H; try discriminate H; injection H as <-; cbn [ks_schema ks_sexpr ks_value] in *; try exact Hs.
  intros k' [<-|[]]. apply Hs. left. reflexivity.
Qed.

Lemma content_of_schema_ks s : ks_content (content_of_schema s) = ks_schema s.
Proof. destruct s. cbn. rewrite !app_nil_r. reflexivity. Qed.

Lemma cast_content_ks v a c D : cast_content (v, a) = Ok c -> sub (ks_value v) D -> sub (ks_content c) D.
Proof.
  unfold cast_content. cbn [fst]. intros H Hs.
  destruct v; cbn [is_schema_like] in H; try discriminate H;
    try (destruct (cast_schema _) as [sc| | |] eqn:Hc; cbn [bind] in H; try discriminate H; injection H as <-;
         rewrite content_of_schema_ks; eapply cast_schema_ks; eassumption).
  injection H as <-. exact Hs.
Qed.

Lemma cast_ranges_ks v a r D : cast_ranges (v, a) = Ok r -> sub (ks_value v) D -> sub (ks_ranges r) D.
Proof.
  unfold cast_ranges. cbn [fst]. intros H Hs.
  destruct v; cbn [is_content_like is_schema_like] in H; try discriminate H.
  all: try (injection H as <-; exact Hs).
  all: destruct (cast_content _) as [c0| | |] eqn:Hc; cbn [bind] in H; try discriminate H; injection H as <-;
    unfold ks_ranges; cbn [flat_map snd]; rewrite app_nil_r; eapply cast_content_ks; eassumption.
Qed.

Lemma cast_property_ks : forall v p D, cast_property v = Ok p -> sub (ks_value v) D -> sub (ks_property p) D.
Proof.
  fix IH 1. intros v p D H Hs. destruct v; cbn [cast_property] in H; try discriminate H.
  - injection H as <-. exact Hs.
  - apply (IH v p D H). intros k' Hk. apply Hs. right. exact Hk.
Qed.

Lemma cast_object_ks : forall v ps D, cast_object v = Ok ps -> sub (ks_value v) D -> sub (ks_props ps) D.
Proof.
  fix IH 1. intros v ps D H Hs. destruct v; cbn [cast_object] in H; try discriminate H.
  - injection H as <-. exact Hs.
  - apply (IH v ps D H). intros k' Hk. apply Hs. right. exact Hk.
Qed.

Lemma cast_transfer_ks : forall v t D, cast_transfer v = Ok t -> sub (ks_value v) D -> sub (ks_transfer t) D.
Proof.
  fix IH 1. intros v t D H Hs. destruct v; cbn [cast_transfer] in H; try discriminate H.
  - injection H as <-. exact Hs.
  - apply (IH v t D H). intros k' Hk. apply Hs. right. exact Hk.
Qed.

Lemma cast_uri_ks : forall v u D, cast_uri v = Ok u -> sub (ks_value v) D -> sub (ks_uri u) D.
Proof.
  fix IH 1. intros v u D H Hs. destruct v; cbn [cast_uri] in H; try discriminate H.
  - injection H as <-. exact Hs.
  - destruct r as [u0 xs]. injection H as <-. cbn [ks_value ks_relation] in Hs. apply sub_app in Hs as [Hs _]. exact Hs.
  - apply (IH v u D H). intros k' Hk. apply Hs. right. exact Hk.
Qed.

Lemma no_xfers_ks : ks_xfers no_xfers = [].
Proof. reflexivity. Qed.

Lemma cast_relation_ks : forall v r D, cast_relation v = Ok r -> sub (ks_value v) D -> sub (ks_relation r) D.
Proof.
  fix IH 1. intros v r D H Hs. destruct v; cbn [cast_relation] in H; try discriminate H.
  - injection H as <-. cbn [ks_relation]. fold (ks_xfers no_xfers). rewrite no_xfers_ks, app_nil_r. exact Hs.
  - injection H as <-. exact Hs.
  - apply (IH v r D H). intros k' Hk. apply Hs. right. exact Hk.
Qed.

Lemma set_required_ks p b : ks_property (set_required p b) = ks_property p.
Proof. destruct p. reflexivity. Qed.

Lemma sub_rev_tail {A} (f : A -> list rkey) (l : list A) D x before :
  rev l = x :: before -> sub (flat_map f l) D -> sub (flat_map f (rev before)) D.
Proof.
  intros Hrev Hs. apply sub_flat_map. apply sub_flat_map in Hs.
  assert (l = rev before ++ [x]) as -> by (rewrite <- (rev_involutive l), Hrev; reflexivity).
  apply Forall_app in Hs as [Hs _]. exact Hs.
Qed.

Lemma uri_append_ks l r u D : uri_append l r = Ok u -> sub (ks_uri l) D -> sub (ks_uri r) D -> sub (ks_uri u) D.
Proof.
  destruct l as [lp lprm lex], r as [rp rprm rex]. unfold uri_append.
  destruct (rev lp) as [|lastseg before] eqn:Hrev; [discriminate|]. intros [= <-] Hl Hr.
  cbn [ks_uri] in *. apply sub_app in Hl as [Hl _]. apply sub_app in Hr as [Hr1 Hr2].
  apply sub_app. split; [|exact Hr2]. rewrite flat_map_app. apply sub_app. split; [|exact Hr1].
  destruct (useg_is_empty lastseg); [eapply sub_rev_tail; eassumption|exact Hl].
Qed.

Lemma set_nth_ks n t xs D : sub (ks_transfer t) D -> sub (ks_xfers xs) D -> sub (ks_xfers (set_nth n (Some t) xs)) D.
Proof.
  intros Ht. revert n. induction xs as [|x xs IH]; intros n Hx; destruct n; cbn [set_nth]; try exact Hx.
  - unfold ks_xfers in *. cbn [flat_map] in *. apply sub_app in Hx as [_ Hx]. apply sub_app. split; assumption.
  - unfold ks_xfers in *. cbn [flat_map] in *. apply sub_app in Hx as [Hx1 Hx]. apply sub_app. split; [exact Hx1|apply IH, Hx].
Qed.

Lemma add_xfer_ks xs t D : sub (ks_transfer t) D -> sub (ks_xfers xs) D -> sub (ks_xfers (add_xfer xs t)) D.
Proof.
  intros Ht Hx. unfold add_xfer. destruct t as [ms dom rg prm d s tg i].
  set (t := Xfer ms dom rg prm d s tg i) in *.
  assert (H : forall (bs : list bool) xs n, sub (ks_xfers xs) D ->
            sub (ks_xfers (fst (fold_left (fun '(xs, i) (b : bool) => (if b then set_nth i (Some t) xs else xs, S i)) bs (xs, n)))) D).
  { induction bs as [|b bs IH]; intros xs0 n Hx0; cbn [fold_left]; [exact Hx0|].
    apply IH. destruct b; [apply set_nth_ks; assumption|exact Hx0]. }
  apply H, Hx.
Qed.

Lemma im_insert_ranges_ks k c (r : ranges) D :
  sub (ks_content c) D -> sub (ks_ranges r) D -> sub (ks_ranges (im_insert rgkey_eqb k c r)) D.
Proof.
  intros Hc. induction r as [|[k' c'] r IH]; intros Hr; cbn [im_insert].
  - unfold ks_ranges. cbn [flat_map snd]. rewrite app_nil_r. exact Hc.
  - unfold ks_ranges in *. cbn [flat_map snd] in Hr. apply sub_app in Hr as [Hr1 Hr2].
    destruct (rgkey_eqb k k'); cbn [flat_map snd]; apply sub_app; split; auto.
Qed.

Lemma im_extend_ranges_ks (m o : ranges) D : sub (ks_ranges m) D -> sub (ks_ranges o) D -> sub (ks_ranges (im_extend rgkey_eqb m o)) D.
Proof.
  unfold im_extend. revert m. induction o as [|[k c] o IH]; intros m Hm Ho; cbn [fold_left]; [exact Hm|].
  unfold ks_ranges in Ho. cbn [flat_map snd] in Ho. apply sub_app in Ho as [Hc Ho].
  apply IH; [apply im_insert_ranges_ks; assumption|exact Ho].
Qed.

Lemma prim_value_ks p a v : prim_value p a = Ok v -> ks_value v = [].
Proof.
  destruct p as [|[[[|[]|]|[[]|[]|]|]|[[|[]|]|[[]|[]|]|]|]]; cbn [prim_value]; intros H; try discriminate H; injection H as <-; reflexivity.
Qed.

(** * the reference table as an insertion-ordered map *)
Definition dom (r : list (rkey * option aval)) (k : rkey) : Prop := In k (map fst r).
Definition pending (r : list (rkey * option aval)) : list rkey :=
  flat_map (fun kv => match snd kv with None => [fst kv] | Some _ => [] end) r.
Definition neqk (k k' : rkey) : bool := negb (rkey_eqb k' k).

Lemma rkey_eqb_eq a b : rkey_eqb a b = true -> a = b.
Proof.
  destruct a, b; cbn; try discriminate; intros H.
  - f_equal. apply N.eqb_eq, H.
  - apply andb_prop in H as [H1 H2]. f_equal; apply N.eqb_eq; assumption.
  - apply andb_prop in H as [H12 H3]. apply andb_prop in H12 as [H1 H2]. f_equal; apply N.eqb_eq; assumption.
Qed.
Lemma rkey_eqb_refl a : rkey_eqb a a = true.
Proof. destruct a; cbn; rewrite ?N.eqb_refl; reflexivity. Qed.

Lemma rget_none_dom k r : rget k r = None <-> ~ dom r k.
Proof.
  unfold rget, dom. induction r as [|[k' x] r IH]; cbn [im_get map fst In].
  - split; [intros _ []|reflexivity].
  - destruct (rkey_eqb k k') eqn:E.
    + apply rkey_eqb_eq in E. subst. split; [discriminate|intros H; exfalso; apply H; left; reflexivity].
    + rewrite IH. split; [intros H [->|H']; [rewrite rkey_eqb_refl in E; discriminate|exact (H H')]|intros H H'; apply H; right; exact H'].
Qed.

Lemma rget_in k r x : rget k r = Some x -> In (k, x) r.
Proof.
  unfold rget. induction r as [|[k' y] r IH]; cbn [im_get]; [discriminate|].
  destruct (rkey_eqb k k') eqn:E; [apply rkey_eqb_eq in E; subst; intros [= ->]; left; reflexivity|intros H; right; apply IH, H].
Qed.

Lemma rinsert_in k x r k' z : In (k', z) (rinsert k x r) -> (k' = k /\ z = x) \/ In (k', z) r.
Proof.
  unfold rinsert. induction r as [|[k0 y] r IH]; cbn [im_insert In].
  - intros [[= <- <-]|[]]. left. auto.
  - destruct (rkey_eqb k k0) eqn:E.
    + apply rkey_eqb_eq in E. subst k0. intros [[= <- <-]|H]; [left; auto|right; right; exact H].
    + intros [H|H]; [right; left; exact H|]. destruct (IH H) as [H'|H']; [left; exact H'|right; right; exact H'].
Qed.

Lemma rinsert_dom k x r k' : dom (rinsert k x r) k' <-> k' = k \/ dom r k'.
Proof.
  unfold rinsert, dom. induction r as [|[k0 y] r IH]; cbn [im_insert map fst In].
  - split; [intros [<-|[]]; left; reflexivity|intros [->|[]]; left; reflexivity].
  - destruct (rkey_eqb k k0) eqn:E; cbn [map fst In].
    + apply rkey_eqb_eq in E. subst k0. split; [intros [<-|H]; [left; reflexivity|right; right; exact H]|intros [->|[<-|H]]; [left; reflexivity|left; reflexivity|right; exact H]].
    + rewrite IH. split; [intros [H|[H|H]]; auto|intros [H|[H|H]]; auto].
Qed.

Lemma rinsert_nodup k x r : NoDup (map fst r) -> NoDup (map fst (rinsert k x r)).
Proof.
  unfold rinsert. induction r as [|[k0 y] r IH]; cbn [im_insert map fst]; intros H.
  - constructor; [intros []|constructor].
  - inversion H as [|? ? Hn Hd]; subst. destruct (rkey_eqb k k0) eqn:E; cbn [map fst].
    + constructor; assumption.
    + constructor; [|apply IH, Hd]. intros Hin. apply (rinsert_dom k x r k0) in Hin as [->|Hin]; [rewrite rkey_eqb_refl in E; discriminate|exact (Hn Hin)].
Qed.

Lemma pending_in k r : In k (pending r) <-> In (k, None) r.
Proof.
  unfold pending. rewrite in_flat_map. split.
  - intros ([k' [x|]] & Hin & Hk); cbn [fst snd] in Hk; [destruct Hk|]. destruct Hk as [<-|[]]. exact Hin.
  - intros H. exists (k, None). split; [exact H|left; reflexivity].
Qed.

Lemma pending_insert_none k r : ~ dom r k -> pending (rinsert k None r) = pending r ++ [k].
Proof.
  unfold rinsert, dom, pending. induction r as [|[k0 y] r IH]; cbn [im_insert map fst In flat_map snd]; intros H; [reflexivity|].
  destruct (rkey_eqb k k0) eqn:E; [apply rkey_eqb_eq in E; subst; exfalso; apply H; left; reflexivity|].
  cbn [flat_map fst snd]. rewrite IH by (intros H'; apply H; right; exact H'). rewrite app_assoc. reflexivity.
Qed.

Lemma filter_neqk_notin k l : ~ In k l -> filter (neqk k) l = l.
Proof.
  induction l as [|x l IH]; cbn [filter]; intros H; [reflexivity|].
  unfold neqk at 1. destruct (rkey_eqb x k) eqn:E; cbn [negb].
  - apply rkey_eqb_eq in E. subst. exfalso. apply H. left. reflexivity.
  - f_equal. apply IH. intros H'. apply H. right. exact H'.
Qed.

Lemma pending_insert_some k v r : NoDup (map fst r) -> pending (rinsert k (Some v) r) = filter (neqk k) (pending r).
Proof.
  unfold rinsert. induction r as [|[k0 y] r IH]; cbn [im_insert map fst]; intros H; [reflexivity|].
  inversion H as [|? ? Hn Hd]; subst. destruct (rkey_eqb k k0) eqn:E.
  - apply rkey_eqb_eq in E. subst k0. unfold pending at 1 2. cbn [flat_map fst snd app].
    assert (Hnot : ~ In k (pending r)). { intros Hin. apply pending_in in Hin. apply Hn. apply (in_map fst) in Hin. exact Hin. }
    fold (pending r). destruct y as [w|]; cbn [app filter].
    + symmetry. apply filter_neqk_notin, Hnot.
    + unfold neqk at 1. rewrite rkey_eqb_refl. cbn [negb]. symmetry. apply filter_neqk_notin, Hnot.
  - unfold pending at 1 2. cbn [flat_map fst snd]. fold (pending (im_insert rkey_eqb k (Some v) r)). fold (pending r).
    rewrite filter_app, IH by exact Hd. f_equal.
    destruct y as [w|]; cbn [filter]; [reflexivity|]. unfold neqk. assert (rkey_eqb k0 k = false) as ->; [|reflexivity].
    destruct (rkey_eqb k0 k) eqn:E'; [apply rkey_eqb_eq in E'; subst; rewrite rkey_eqb_refl in E; discriminate|reflexivity].
Qed.

(** * the invariant *)
Definition active (ss : list (N * scope)) (k : rkey) : Prop :=
  exists id sc x a, In (id, sc) ss /\ In (x, (VRecur k, a)) sc.
Definition allk (s : st) (k : rkey) : Prop := dom (refs s) k \/ active (scopes s) k.

Definition refs_cl (r : list (rkey * option aval)) (D : rkey -> Prop) : Prop :=
  forall k v a, In (k, Some (v, a)) r -> sub (ks_value v) D.
Definition scopes_cl (ss : list (N * scope)) (D : rkey -> Prop) : Prop :=
  forall id sc x v a, In (id, sc) ss -> In (x, (v, a)) sc -> sub (ks_value v) D.
Definition norec (l : list rkey) : Prop := forall k, In k l -> match k with KRec _ _ _ => False | _ => True end.

Record inv (s : st) : Prop := {
  inv_refs : refs_cl (refs s) (allk s);
  inv_scopes : scopes_cl (scopes s) (allk s);
  inv_nodup : NoDup (map fst (refs s));
  inv_norec : norec (pending (refs s)) }.

Definition good {B} (s : st) (Q : st -> B -> Prop) (r : res (st * B)) : Prop :=
  match r with
  | Ok (s', b) =>
      inv s' /\ Q s' b /\ (forall k, dom (refs s) k -> dom (refs s') k) /\
      scopes s' = scopes s /\ pending (refs s') = pending (refs s)
  | _ => True
  end.

Lemma allk_mono s s' : (forall k, dom (refs s) k -> dom (refs s') k) -> scopes s' = scopes s ->
  forall k, allk s k -> allk s' k.
Proof. intros Hd Hs k [H|H]; [left; apply Hd, H|right; rewrite Hs; exact H]. Qed.

Lemma good_bind {B C} s (Q : st -> B -> Prop) (R : st -> C -> Prop) (r : res (st * B)) (k : st * B -> res (st * C)) :
  good s Q r ->
  (forall s1 b, inv s1 -> Q s1 b -> (forall k, dom (refs s) k -> dom (refs s1) k) -> scopes s1 = scopes s ->
                pending (refs s1) = pending (refs s) ->
                good s1 (fun s2 c => R s2 c) (k (s1, b))) ->
  good s R (bind r k).
Proof.
  intros Hr Hk. destruct r as [[s1 b]|x|p|]; cbn [good bind] in *; try exact I.
  destruct Hr as (Hi & Hq & Hd & Hs & Hp). specialize (Hk s1 b Hi Hq Hd Hs Hp).
  destruct (k (s1, b)) as [[s2 c]|x|p|]; cbn [good] in *; try exact I.
  destruct Hk as (Hi2 & Hr2 & Hd2 & Hs2 & Hp2).
  split; [exact Hi2|]. split; [exact Hr2|]. split; [intros k0 Hk0; apply Hd2, Hd, Hk0|]. split; congruence.
Qed.

Lemma good_pure {B C} s (R : st -> C -> Prop) (c : res B) (k : B -> res (st * C)) :
  (forall x, c = Ok x -> good s R (k x)) -> good s R (bind c k).
Proof. intros Hk. destruct c as [x|x|p|]; cbn [bind good]; try exact I. apply Hk. reflexivity. Qed.

Lemma good_ret {B} s (R : st -> B -> Prop) b : inv s -> R s b -> good s R (Ok (s, b)).
Proof. intros Hi Hr. cbn [good]. split; [exact Hi|]. split; [exact Hr|]. split; [auto|]. split; reflexivity. Qed.

(** closedness of a result with respect to the keys of the state it comes with *)
Definition CL {B} (ks : B -> list rkey) : st -> B -> Prop := fun s b => sub (ks b) (allk s).

Section Lists.
  Context {X B : Type}.
  Variable ks : B -> list rkey.
  Variable f : st -> X -> res (st * B).
  Hypothesis Hf : forall s x, inv s -> good s (CL ks) (f s x).

  Lemma map_st_good l : forall s, inv s -> good s (CL (flat_map ks)) (map_st f s l).
  Proof.
    induction l as [|x l IH]; intros s Hi.
    - cbn [map_st]. apply good_ret; [exact Hi|apply sub_nil].
    - cbn [map_st]. eapply good_bind; [apply Hf, Hi|].
      intros s1 b Hi1 Hb Hd1 Hs1 Hp1. eapply good_bind; [apply IH, Hi1|].
      intros s2 bs Hi2 Hbs Hd2 Hs2 Hp2. apply good_ret; [exact Hi2|].
      unfold CL in *. cbn [flat_map]. apply sub_app. split; [|exact Hbs].
      eapply sub_mono; [apply (allk_mono s1 s2 Hd2 Hs2)|exact Hb].
  Qed.

  Lemma opt_st_good o : forall s, inv s ->
    good s (CL (fun ob => match ob with Some b => ks b | None => [] end)) (opt_st f s o).
  Proof.
    intros s Hi. destruct o as [x|]; cbn [opt_st].
    - eapply good_bind; [apply Hf, Hi|]. intros s1 b Hi1 Hb _ _ _. apply good_ret; assumption.
    - apply good_ret; [exact Hi|apply sub_nil].
  Qed.
End Lists.

(** an evaluation followed by a cast that does not invent keys *)
Lemma step_good {B} (ev : st -> expr -> res (st * aval)) (c : aval -> res B) (ks : B -> list rkey) :
  (forall s e, inv s -> good s (CL (fun va : aval => ks_value (fst va))) (ev s e)) ->
  (forall va x D, c va = Ok x -> sub (ks_value (fst va)) D -> sub (ks x) D) ->
  forall s e, inv s -> good s (CL ks) (do (s', v) <- ev s e; do x <- c v; Ok (s', x)).
Proof.
  intros Hev Hc s e Hi. eapply good_bind; [apply Hev, Hi|].
  intros s1 va Hi1 Hva _ _ _. cbn beta iota. apply good_pure. intros x Hx.
  apply good_ret; [exact Hi1|]. unfold CL in *. eapply Hc; eassumption.
Qed.

Lemma im_get_in x (sc : scope) va : im_get N.eqb x sc = Some va -> In (x, va) sc.
Proof.
  induction sc as [|[k w] sc IH]; cbn [im_get]; [discriminate|].
  destruct (N.eqb_spec x k) as [->|_]; [intros [= ->]; left; reflexivity|intros H; right; apply IH, H].
Qed.

Lemma lookup_in x ss va : lookup_binding x ss = Some va -> exists id sc, In (id, sc) ss /\ In (x, va) sc.
Proof.
  induction ss as [|[id sc] ss IH]; cbn [lookup_binding]; [discriminate|].
  destruct (im_get N.eqb x sc) as [w|] eqn:E.
  - intros [= ->]. exists id, sc. split; [left; reflexivity|apply im_get_in, E].
  - intros H. destruct (IH H) as (id' & sc' & H1 & H2). exists id', sc'. split; [right; exact H1|exact H2].
Qed.

Lemma im_insert_scope_in p (v : aval) (sc : scope) x w : In (x, w) (im_insert N.eqb p v sc) -> (x = p /\ w = v) \/ In (x, w) sc.
Proof.
  induction sc as [|[k u] sc IH]; cbn [im_insert In].
  - intros [[= <- <-]|[]]. left. auto.
  - destruct (N.eqb_spec p k) as [->|_].
    + intros [[= <- <-]|H]; [left; auto|right; right; exact H].
    + intros [H|H]; [right; left; exact H|]. destruct (IH H) as [H'|H']; [left; exact H'|right; right; exact H'].
Qed.

Lemma filter_subset k l k' : In k' (filter (neqk k) l) -> In k' l.
Proof. intros H. apply filter_In in H. apply H. Qed.

Definition scope_cl (sc : scope) (D : rkey -> Prop) : Prop := forall x v a, In (x, (v, a)) sc -> sub (ks_value v) D.

Section Main.
  Variable P : prog.

  Definition VAL : st -> aval -> Prop := CL (fun va : aval => ks_value (fst va)).

  (** states that differ from [s] by more references only *)
  Lemma inv_set_refs_none s key : inv s -> rget key (refs s) = None ->
    match key with KRec _ _ _ => False | _ => True end ->
    inv (set_refs s (rinsert key None (refs s))).
  Proof.
    intros [Hr Hs Hn Hp] Hget Hk.
    assert (Hmono : forall k, allk s k -> allk (set_refs s (rinsert key None (refs s))) k).
    { apply allk_mono; [|reflexivity]. intros k Hd. cbn [set_refs refs]. apply rinsert_dom. right. exact Hd. }
    constructor; cbn [set_refs refs scopes].
    - intros k v a Hin. apply rinsert_in in Hin as [[_ Hx]|Hin]; [discriminate Hx|].
      eapply sub_mono; [exact Hmono|]. eapply Hr, Hin.
    - intros id sc x v a H1 H2. eapply sub_mono; [exact Hmono|]. eapply Hs; eassumption.
    - apply rinsert_nodup, Hn.
    - rewrite pending_insert_none by (apply rget_none_dom, Hget).
      intros k Hin. apply in_app_or in Hin as [Hin|[<-|[]]]; [apply Hp, Hin|exact Hk].
  Qed.

  Lemma inv_set_refs_some s key v a :
    inv s -> sub (ks_value v) (allk s) -> inv (set_refs s (rinsert key (Some (v, a)) (refs s))).
  Proof.
    intros [Hr Hs Hn Hp] Hv.
    assert (Hmono : forall k, allk s k -> allk (set_refs s (rinsert key (Some (v, a)) (refs s))) k).
    { apply allk_mono; [|reflexivity]. intros k Hd. cbn [set_refs refs]. apply rinsert_dom. right. exact Hd. }
    constructor; cbn [set_refs refs scopes].
    - intros k v' a' Hin. apply rinsert_in in Hin as [[_ Hx]|Hin].
      + injection Hx as -> ->. eapply sub_mono; [exact Hmono|exact Hv].
      + eapply sub_mono; [exact Hmono|]. eapply Hr, Hin.
    - intros id sc x v' a' H1 H2. eapply sub_mono; [exact Hmono|]. eapply Hs; eassumption.
    - apply rinsert_nodup, Hn.
    - rewrite pending_insert_some by exact Hn. intros k Hin. apply Hp. eapply filter_subset, Hin.
  Qed.

  Lemma inv_push s sc : inv s -> scope_cl sc (allk s) -> inv (push_scope s sc).
  Proof.
    intros [Hr Hs Hn Hp] Hsc.
    assert (Hmono : forall k, allk s k -> allk (push_scope s sc) k).
    { intros k [H|(id & sc' & x & a & H1 & H2)]; [left; exact H|right]. exists id, sc', x, a. split; [right; exact H1|exact H2]. }
    constructor; cbn [push_scope refs scopes]; try assumption.
    - intros k v a Hin. eapply sub_mono; [exact Hmono|]. eapply Hr, Hin.
    - intros id sc' x v a [[= <- <-]|H1] H2.
      + eapply sub_mono; [exact Hmono|]. eapply Hsc, H2.
      + eapply sub_mono; [exact Hmono|]. eapply Hs; eassumption.
  Qed.

  (** leaving a scope whose recursion keys are accounted for elsewhere *)
  Lemma inv_pop s id sc rest : inv s -> scopes s = (id, sc) :: rest ->
    (forall k x a, In (x, (VRecur k, a)) sc -> allk (pop_scope s) k) ->
    inv (pop_scope s) /\ (forall k, allk s k -> allk (pop_scope s) k).
  Proof.
    intros [Hr Hs Hn Hp] Hsc Hk.
    assert (Hmono : forall k, allk s k -> allk (pop_scope s) k).
    { intros k [H|(id' & sc' & x & a & H1 & H2)]; [left; exact H|].
      rewrite Hsc in H1. destruct H1 as [[= <- <-]|H1]; [eapply Hk, H2|].
      right. unfold pop_scope. cbn [scopes]. rewrite Hsc. cbn [tl]. exists id', sc', x, a. auto. }
    split; [|exact Hmono].
    constructor; cbn [pop_scope refs scopes]; try assumption.
    - intros k v a Hin. eapply sub_mono; [exact Hmono|]. eapply Hr, Hin.
    - intros id' sc' x v a H1 H2. rewrite Hsc in H1. cbn [tl] in H1.
      eapply sub_mono; [exact Hmono|]. eapply (Hs id' sc'); [rewrite Hsc; right; exact H1|exact H2].
  Qed.

  Section Args.
    Variable ev : st -> expr -> res (st * aval).
    Hypothesis Hev : forall s e, inv s -> good s VAL (ev s e).

    Lemma bind_args_good args : forall s ps sc, inv s -> scope_cl sc (allk s) ->
      good s (fun s' sc' => scope_cl sc' (allk s')) (bind_args ev s ps args sc).
    Proof.
      induction args as [|a args IH]; intros s ps sc Hi Hsc.
      - destruct ps; apply good_ret; assumption.
      - destruct ps as [|p ps]; [apply good_ret; assumption|].
        cbn [bind_args]. eapply good_bind; [apply Hev, Hi|].
        intros s1 [v a1] Hi1 Hv Hd1 Hs1 _. cbn beta iota.
        apply IH; [exact Hi1|].
        intros x w aw Hin. apply im_insert_scope_in in Hin as [[_ Hx]|Hin].
        + injection Hx as -> ->. exact Hv.
        + eapply sub_mono; [apply (allk_mono s s1 Hd1 Hs1)|]. eapply Hsc, Hin.
    Qed.

    Lemma eval_metas_good ms : forall s (acc : meta_acc), inv s -> sub (ks_oprops (snd acc)) (allk s) ->
      good s (fun s' (acc' : meta_acc) => sub (ks_oprops (snd acc')) (allk s')) (eval_metas ev s ms acc).
    Proof.
      induction ms as [|[k rhs] ms IH]; intros s acc Hi Hacc.
      - apply good_ret; assumption.
      - cbn [eval_metas]. eapply good_bind; [apply Hev, Hi|].
        intros s1 [v a1] Hi1 Hv Hd1 Hs1 _. cbn beta iota. destruct acc as [[status media] headers]. cbn [fst snd] in *.
        assert (Hacc1 : sub (ks_oprops headers) (allk s1)) by (eapply sub_mono; [apply (allk_mono s s1 Hd1 Hs1)|exact Hacc]).
        destruct k as [|[p|p|]].
        + apply good_pure. intros x _. apply IH; assumption.
        + apply good_pure. intros x _. apply IH; assumption.
        + apply good_pure. intros x _. apply IH; assumption.
        + apply good_pure. intros x Hx. apply IH; [exact Hi1|]. cbn [snd ks_oprops]. eapply cast_object_ks; eassumption.
    Qed.
  End Args.

  Lemma fold_extend_ks rs : forall acc D, sub (ks_ranges acc) D -> sub (flat_map ks_ranges rs) D ->
    sub (ks_ranges (fold_left (im_extend rgkey_eqb) rs acc)) D.
  Proof.
    induction rs as [|r rs IH]; intros acc D Ha Hr; cbn [fold_left]; [exact Ha|].
    cbn [flat_map] in Hr. apply sub_app in Hr as [Hr1 Hr2]. apply IH; [apply im_extend_ranges_ks; assumption|exact Hr2].
  Qed.

  Lemma fold_add_xfer_ks ts : forall xs D, sub (ks_xfers xs) D -> sub (flat_map ks_transfer ts) D ->
    sub (ks_xfers (fold_left add_xfer ts xs)) D.
  Proof.
    induction ts as [|t ts IH]; intros xs D Hx Ht; cbn [fold_left]; [exact Hx|].
    cbn [flat_map] in Ht. apply sub_app in Ht as [Ht1 Ht2]. apply IH; [apply add_xfer_ks; assumption|exact Ht2].
  Qed.

  Lemma closure : forall n s e a, inv s -> good s VAL (eval false P n s e a).
  Proof.
    induction n as [|n IH]; intros s e a Hi; [exact I|].
    assert (IH0 : forall s e, inv s -> good s VAL (eval false P n s e [])) by (intros; apply IH; assumption).
    set (EV := fun s e => eval false P n s e []) in *.
    destruct e; cbn [eval]; fold EV.
    - (* ETerm *) apply good_pure. intros x _. apply IH, Hi.
    - (* ESub *) apply IH, Hi.
    - (* EPrim *) apply good_pure. intros v Hv. apply good_ret; [exact Hi|]. unfold VAL, CL. cbn [fst]. rewrite (prim_value_ks _ _ _ Hv). apply sub_nil.
    - apply good_ret; [exact Hi|apply sub_nil].
    - apply good_ret; [exact Hi|apply sub_nil].
    - apply good_ret; [exact Hi|apply sub_nil].
    - (* EDecl *)
      destruct (get_decl P m i) as [d|]; [|exact I].
      destruct (d_params d) as [|p ps]; [|apply good_ret; [exact Hi|apply sub_nil]].
      apply good_pure. intros da _.
      destruct ((match d_ref d with Some _ => true | None => false end) || d_rec d); [|apply IH, Hi].
      set (key := match d_ref d with Some x => KNamed x | None => KDecl m i end).
      assert (Hkey : match key with KRec _ _ _ => False | _ => True end) by (subst key; destruct (d_ref d); exact I).
      destruct (rget key (refs s)) as [[[v va]|]|] eqn:Hget.
      + apply good_ret; [exact Hi|]. unfold VAL, CL. cbn [fst snd ks_value].
        intros k [<-|Hk].
        * left. apply rget_in in Hget. apply (in_map fst) in Hget. exact Hget.
        * apply rget_in in Hget. eapply (inv_refs s Hi), Hk. exact Hget.
      + apply good_ret; [exact Hi|]. unfold VAL, CL. cbn [fst ks_value]. intros k [<-|[]].
        left. apply rget_in in Hget. apply (in_map fst) in Hget. exact Hget.
      + pose proof (inv_set_refs_none s key Hi Hget Hkey) as Hi1.
        set (s1 := set_refs s (rinsert key None (refs s))) in *.
        pose proof (IH s1 (d_rhs d) (extend da a) Hi1) as Hb.
        destruct (eval false P n s1 (d_rhs d) (extend da a)) as [[s2 [v va]]|x|p0|]; cbn [bind good] in *; try exact I.
        destruct Hb as (Hi2 & Hv & Hd2 & Hs2 & Hp2). unfold VAL, CL in Hv. cbn [fst snd] in *.
        pose proof (inv_set_refs_some s2 key v va Hi2 Hv) as Hi3.
        set (s3 := set_refs s2 (rinsert key (Some (v, va)) (refs s2))) in *.
        assert (Hd3 : forall k, dom (refs s2) k -> dom (refs s3) k) by (intros k Hk; subst s3; cbn [set_refs refs]; apply rinsert_dom; right; exact Hk).
        split; [exact Hi3|]. split.
        * unfold VAL, CL. cbn [fst ks_value]. intros k [<-|Hk].
          -- left. subst s3. cbn [set_refs refs]. apply rinsert_dom. left. reflexivity.
          -- apply (allk_mono s2 s3 Hd3 eq_refl). apply Hv, Hk.
        * split; [|split].
          -- intros k Hk. apply Hd3, Hd2. subst s1. cbn [set_refs refs]. apply rinsert_dom. right. exact Hk.
          -- subst s3. cbn [set_refs scopes]. rewrite Hs2. reflexivity.
          -- subst s3. cbn [set_refs refs]. rewrite pending_insert_some by (apply (inv_nodup s2 Hi2)).
             rewrite Hp2. subst s1. cbn [set_refs refs]. rewrite pending_insert_none by (apply rget_none_dom, Hget).
             rewrite filter_app. cbn [filter]. unfold neqk at 2. rewrite rkey_eqb_refl. cbn [negb]. rewrite app_nil_r.
             apply filter_neqk_notin. intros Hin. apply pending_in in Hin. apply (in_map fst) in Hin. apply rget_none_dom in Hget. exact (Hget Hin).
    - apply good_ret; [exact Hi|apply sub_nil].
    - (* EBind *)
      destruct (lookup_binding x (scopes s)) as [[v prev]|] eqn:Hl; [|exact I].
      apply good_ret; [exact Hi|]. unfold VAL, CL. cbn [fst].
      destruct (lookup_in _ _ _ Hl) as (id & sc & H1 & H2). eapply (inv_scopes s Hi); eassumption.
    - (* EApp *)
      eapply good_bind; [apply IH0, Hi|].
      intros s1 [fv fa] Hi1 _ _ _ _. cbn beta iota. apply good_pure. intros lam _.
      destruct lam as [?|?|?|?|?|?|?|?|? ?|? ? ?|?|?|?|?| |m i|?];
        try (eapply good_bind; [apply (map_st_good (fun va : aval => ks_value (fst va)) EV IH0), Hi1|];
             intros s2 vs Hi2 Hvs _ _ _; cbn beta iota;
             destruct vs as [|[vl al] [|[vr ar] [|v3 vs]]]; try exact I;
             unfold CL in Hvs; cbn [flat_map fst] in Hvs; rewrite app_nil_r in Hvs; apply sub_app in Hvs as [Hvl Hvr];
             apply good_pure; intros zru Hru; apply good_pure; intros zlu Hlu; apply good_pure; intros zu Hu;
             apply good_ret; [exact Hi2|]; unfold VAL, CL; cbn [fst ks_value];
             eapply uri_append_ks; [exact Hu|eapply cast_uri_ks; eassumption|eapply cast_uri_ks; eassumption]).
      destruct (get_decl P m i) as [d|]; [|exact I].
      eapply good_bind; [apply (bind_args_good EV IH0); [exact Hi1|intros x v a0 []]|].
      intros s2 sc Hi2 Hsc _ _ _. cbn beta iota. apply good_pure. intros da _.
      pose proof (inv_push s2 sc Hi2 Hsc) as Hip.
      pose proof (IH (push_scope s2 sc) (d_rhs d) (extend da a) Hip) as Hb.
      destruct (eval false P n (push_scope s2 sc) (d_rhs d) (extend da a)) as [[s3 [rv ra]]|x|p0|]; cbn [bind good] in *; try exact I.
      destruct Hb as (Hi3 & Hv & Hd3 & Hs3 & Hp3). unfold VAL, CL in Hv. cbn [fst] in Hv. cbn [push_scope scopes refs] in Hs3, Hd3, Hp3.
      destruct (inv_pop s3 _ sc (scopes s2) Hi3 Hs3) as [Hi4 Hmono].
      { intros k x a0 Hin. pose proof (Hsc x (VRecur k) a0 Hin k (or_introl eq_refl)) as [Hk|Hk].
        - left. cbn [pop_scope refs]. apply Hd3, Hk.
        - right. unfold pop_scope. cbn [scopes]. rewrite Hs3. exact Hk. }
      split; [exact Hi4|]. split; [unfold VAL, CL; cbn [fst]; eapply sub_mono; [exact Hmono|exact Hv]|].
      split; [exact Hd3|]. split; [unfold pop_scope; cbn [scopes]; rewrite Hs3; reflexivity|exact Hp3].
    - (* ERec *)
      set (key := KRec m i (top_scope_id s)).
      set (sc := [(x, (VRecur key, @nil (str * yaml)))]).
      assert (Hsc : scope_cl sc (allk (push_scope s sc))).
      { intros y v a0 [[= <- <- <-]|[]]. cbn [ks_value]. intros k [<-|[]]. right.
        exists (seq s + 1), sc, x, []. split; [left; reflexivity|left; reflexivity]. }
      assert (Hip : inv (push_scope s sc)).
      { destruct Hi as [Hr Hs Hn Hp].
        assert (Hmono : forall k, allk s k -> allk (push_scope s sc) k).
        { intros k [H|(id & sc' & y & a0 & H1 & H2)]; [left; exact H|right]. exists id, sc', y, a0. split; [right; exact H1|exact H2]. }
        constructor; cbn [push_scope refs scopes]; try assumption.
        - intros k v a0 Hin. eapply sub_mono; [exact Hmono|]. eapply Hr, Hin.
        - intros id sc' y v a0 [[= <- <-]|H1] H2; [eapply Hsc, H2|]. eapply sub_mono; [exact Hmono|]. eapply Hs; eassumption. }
      pose proof (IH (push_scope s sc) e a Hip) as Hb.
      destruct (eval false P n (push_scope s sc) e a) as [[s1 [rv ra]]|y|p0|]; cbn [bind good] in *; try exact I.
      destruct Hb as (Hi1 & Hv & Hd1 & Hs1 & Hp1). unfold VAL, CL in Hv. cbn [fst snd] in *. cbn [push_scope scopes refs] in Hs1, Hd1, Hp1.
      set (s2 := pop_scope s1).
      set (s3 := set_refs s2 (rinsert key (Some (rv, ra)) (refs s2))).
      assert (Hmono : forall k, allk s1 k -> allk s3 k).
      { intros k [H|(id & sc' & y & a0 & H1 & H2)].
        - left. subst s3 s2. cbn [set_refs pop_scope refs]. apply rinsert_dom. right. exact H.
        - rewrite Hs1 in H1. destruct H1 as [[= <- <-]|H1].
          + destruct H2 as [[= <- <- <-]|[]]. left. subst s3 s2. cbn [set_refs pop_scope refs]. apply rinsert_dom. left. reflexivity.
          + right. subst s3 s2. unfold pop_scope. cbn [set_refs scopes]. rewrite Hs1. cbn [tl]. exists id, sc', y, a0. auto. }
      assert (Hi3 : inv s3).
      { destruct Hi1 as [Hr Hs Hn Hp]. constructor; subst s3 s2; cbn [set_refs pop_scope refs scopes].
        - intros k v a0 Hin. apply rinsert_in in Hin as [[_ Hx]|Hin].
          + injection Hx as -> ->. eapply sub_mono; [exact Hmono|exact Hv].
          + eapply sub_mono; [exact Hmono|]. eapply Hr, Hin.
        - intros id sc' y v a0 H1 H2. rewrite Hs1 in H1. cbn [tl] in H1.
          eapply sub_mono; [exact Hmono|]. eapply (Hs id sc'); [rewrite Hs1; right; exact H1|exact H2].
        - apply rinsert_nodup, Hn.
        - rewrite pending_insert_some by exact Hn. intros k Hin. apply Hp. eapply filter_subset, Hin. }
      split; [exact Hi3|]. split.
      + unfold VAL, CL. cbn [fst ks_value]. intros k [<-|Hk].
        * left. subst s3 s2. cbn [set_refs pop_scope refs]. apply rinsert_dom. left. reflexivity.
        * apply Hmono, Hv, Hk.
      + split; [|split].
        * intros k Hk. subst s3 s2. cbn [set_refs pop_scope refs]. apply rinsert_dom. right. apply Hd1, Hk.
        * subst s3 s2. unfold pop_scope. cbn [set_refs scopes]. rewrite Hs1. reflexivity.
        * subst s3 s2. cbn [set_refs pop_scope refs]. rewrite pending_insert_some by (apply (inv_nodup s1 Hi1)).
          rewrite filter_neqk_notin; [exact Hp1|]. intros Hin. apply (inv_norec s1 Hi1) in Hin. exact Hin.
    - (* EObj *)
      eapply good_bind; [apply (map_st_good ks_property); [|exact Hi]|].
      { intros s0 x0 Hi0. apply (step_good EV (fun v => cast_property (fst v)) ks_property IH0); [|exact Hi0].
        intros va x1 D Hc Hs. eapply cast_property_ks; eassumption. }
      intros s1 props Hi1 Hps _ _ _. apply good_ret; [exact Hi1|exact Hps].
    - (* EProp *)
      eapply good_bind; [apply IH0, Hi|]. intros s1 [v va] Hi1 Hv _ _ _. cbn beta iota.
      apply good_pure. intros sc Hsc. apply good_ret; [exact Hi1|]. unfold VAL, CL in *. cbn [fst ks_value ks_property] in *.
      eapply cast_schema_ks; eassumption.
    - (* EUnary *)
      eapply good_bind; [apply IH0, Hi|]. intros s1 [v va] Hi1 Hv _ _ _. cbn beta iota.
      apply good_pure. intros pr Hpr. apply good_ret; [exact Hi1|]. unfold VAL, CL in *. cbn [fst ks_value] in *.
      rewrite set_required_ks. eapply cast_property_ks; eassumption.
    - (* EArr *)
      eapply good_bind; [apply IH0, Hi|]. intros s1 [v va] Hi1 Hv _ _ _. cbn beta iota.
      apply good_pure. intros sc Hsc. apply good_ret; [exact Hi1|]. unfold VAL, CL in *. cbn [fst ks_value] in *.
      eapply cast_schema_ks; eassumption.
    - (* EOp *)
      destruct (N.eqb op 3).
      + eapply good_bind; [apply (map_st_good ks_ranges); [|exact Hi]|].
        { intros s0 x0 Hi0. apply (step_good EV cast_ranges ks_ranges IH0); [|exact Hi0].
          intros [v0 a0] x1 D Hc Hs. eapply cast_ranges_ks; eassumption. }
        intros s1 rs Hi1 Hrs _ _ _. apply good_ret; [exact Hi1|]. unfold VAL, CL in *. cbn [fst ks_value].
        apply fold_extend_ks; [apply sub_nil|exact Hrs].
      + destruct (vop_of op) as [o|]; [|exact I].
        eapply good_bind; [apply (map_st_good ks_schema); [|exact Hi]|].
        { intros s0 x0 Hi0. apply (step_good EV cast_schema ks_schema IH0); [|exact Hi0].
          intros [v0 a0] x1 D Hc Hs. eapply cast_schema_ks; eassumption. }
        intros s1 ss Hi1 Hss _ _ _. apply good_ret; [exact Hi1|exact Hss].
    - (* ECont *)
      eapply good_bind; [apply (opt_st_good ks_schema); [|exact Hi]|].
      { intros s0 x0 Hi0. apply (step_good EV cast_schema ks_schema IH0); [|exact Hi0].
        intros [v0 a0] x1 D Hc Hs. eapply cast_schema_ks; eassumption. }
      intros s1 schema Hi1 Hsch _ _ _. cbn beta iota zeta.
      eapply good_bind; [apply (eval_metas_good EV IH0); [exact Hi1|apply sub_nil]|].
      intros s2 [[status media] headers] Hi2 Hh Hd2 Hs2 _. cbn [snd] in Hh. apply good_ret; [exact Hi2|].
      unfold VAL, CL in *. cbn [fst ks_value ks_content]. apply sub_app. split; [|exact Hh].
      eapply sub_mono; [apply (allk_mono s1 s2 Hd2 Hs2)|]. destruct schema; exact Hsch.
    - (* EXfer *)
      eapply good_bind; [apply (opt_st_good ks_content); [|exact Hi]|].
      { intros s0 x0 Hi0. apply (step_good EV cast_content ks_content IH0); [|exact Hi0].
        intros [v0 a0] x1 D Hc Hs. eapply cast_content_ks; eassumption. }
      intros s1 dom0 Hi1 Hdom _ _ _. cbn beta iota zeta.
      eapply good_bind; [apply IH0, Hi1|]. intros s2 [rv ra] Hi2 Hrv Hd2 Hs2 _. cbn beta iota.
      apply good_pure. intros rg Hrg.
      eapply good_bind; [apply (opt_st_good ks_props); [|exact Hi2]|].
      { intros s0 x0 Hi0. apply (step_good EV (fun v => cast_object (fst v)) ks_props IH0); [|exact Hi0].
        intros va x1 D Hc Hs. eapply cast_object_ks; eassumption. }
      intros s3 prm Hi3 Hprm Hd3 Hs3 _. apply good_ret; [exact Hi3|].
      unfold VAL, CL in *. cbn [fst ks_value]. rewrite ks_transfer_eq.
      assert (M12 := allk_mono s1 s2 Hd2 Hs2). assert (M23 := allk_mono s2 s3 Hd3 Hs3).
      apply sub_app. split; [|apply sub_app; split].
      + eapply sub_mono; [exact M23|]. eapply sub_mono; [exact M12|]. destruct dom0 as [c|]; [exact Hdom|apply sub_nil].
      + eapply sub_mono; [exact M23|]. eapply cast_ranges_ks; eassumption.
      + destruct prm; exact Hprm.
    - (* EUri *)
      eapply good_bind.
      { apply (map_st_good ks_useg (fun s (sg : str + expr) =>
                 match sg with
                 | inl x => Ok (s, ULit x)
                 | inr v => do (s', pv) <- EV s v; do p <- cast_property (fst pv); Ok (s', UVar p)
                 end)); [|exact Hi].
        intros s0 [x0|v0] Hi0; [apply good_ret; [exact Hi0|apply sub_nil]|].
        eapply good_bind; [apply IH0, Hi0|]. intros s1 [pv pa] Hi1 Hpv _ _ _. cbn beta iota.
        apply good_pure. intros pr Hpr. apply good_ret; [exact Hi1|]. unfold VAL, CL in *. cbn [fst ks_useg] in *.
        eapply cast_property_ks; eassumption. }
      intros s1 path Hi1 Hpath _ _ _. cbn beta iota.
      eapply good_bind; [apply (opt_st_good ks_props); [|exact Hi1]|].
      { intros s0 x0 Hi0. apply (step_good EV (fun v => cast_object (fst v)) ks_props IH0); [|exact Hi0].
        intros va x1 D Hc Hs. eapply cast_object_ks; eassumption. }
      intros s2 prm Hi2 Hprm Hd2 Hs2 _. apply good_ret; [exact Hi2|].
      unfold VAL, CL in *. cbn [fst ks_value ks_uri]. apply sub_app. split.
      + eapply sub_mono; [apply (allk_mono s1 s2 Hd2 Hs2)|exact Hpath].
      + destruct prm; exact Hprm.
    - (* ERel *)
      eapply good_bind; [apply IH0, Hi|]. intros s1 [uv ua] Hi1 Huv _ _ _. cbn beta iota.
      apply good_pure. intros ur Hur.
      eapply good_bind; [apply (map_st_good ks_transfer); [|exact Hi1]|].
      { intros s0 x0 Hi0. apply (step_good EV (fun v => cast_transfer (fst v)) ks_transfer IH0); [|exact Hi0].
        intros va x1 D Hc Hs. eapply cast_transfer_ks; eassumption. }
      intros s2 ts Hi2 Hts Hd2 Hs2 _. apply good_ret; [exact Hi2|].
      unfold VAL, CL in *. cbn [fst ks_value ks_relation]. apply sub_app. split.
      + eapply sub_mono; [apply (allk_mono s1 s2 Hd2 Hs2)|]. eapply cast_uri_ks; eassumption.
      + fold (ks_xfers (fold_left add_xfer ts no_xfers)). apply fold_add_xfer_ks; [rewrite no_xfers_ks; apply sub_nil|exact Hts].
  Qed.
End Main.

(** * whole programs *)
Lemma inv_st0 : inv st0.
Proof.
  constructor; cbn.
  - intros k v a [].
  - intros id sc x v a [].
  - constructor.
  - intros k [].
Qed.

Lemma refs_table_spec r : forall t, refs_table r = Ok t -> pending r = [] ->
  map fst t = map fst r /\
  forall k sc, In (k, sc) t -> exists v a, In (k, Some (v, a)) r /\ cast_schema (v, a) = Ok sc.
Proof.
  induction r as [|[k [[v a]|]] r IH]; intros t Ht Hp; cbn [refs_table] in Ht.
  - injection Ht as <-. split; [reflexivity|intros k sc []].
  - destruct (cast_schema (v, a)) as [sc| | |] eqn:Hc; cbn [bind] in Ht; try discriminate Ht.
    destruct (refs_table r) as [t'| | |] eqn:Ht'; cbn [bind] in Ht; try discriminate Ht. injection Ht as <-.
    destruct (IH t' eq_refl Hp) as [Hk Hs]. split; [cbn [map fst]; f_equal; exact Hk|].
    intros k' sc' [[= <- <-]|Hin]; [exists v, a; split; [left; reflexivity|exact Hc]|].
    destruct (Hs k' sc' Hin) as (v' & a' & H1 & H2). exists v', a'. split; [right; exact H1|exact H2].
  - discriminate Hp.
Qed.

Theorem spec_closed P n rs rels table :
  eval_program false P n rs = Ok (rels, table) ->
  (forall k, In k (flat_map ks_relation rels) -> In k (map fst table)) /\
  (forall k sc, In (k, sc) table -> forall k', In k' (ks_schema sc) -> In k' (map fst table)).
Proof.
  unfold eval_program. intros H.
  pose proof (map_st_good ks_relation
                (fun s r => do (s', v) <- eval false P n s r []; do rel <- cast_relation (fst v); Ok (s', rel))) as Hm.
  specialize (Hm (fun s x Hi => step_good (fun s e => eval false P n s e []) (fun v => cast_relation (fst v)) ks_relation
                                  (fun s e Hi' => closure P n s e [] Hi')
                                  (fun va x1 D Hc Hs => cast_relation_ks (fst va) x1 D Hc Hs) s x Hi) rs st0 inv_st0).
  destruct (map_st _ st0 rs) as [[s1 rels']|x|p|]; cbn [bind good] in *; try discriminate H.
  destruct Hm as (Hi1 & Hrels & _ & Hs1 & Hp1). cbn [st0 scopes refs pending flat_map] in Hs1, Hp1.
  destruct (refs_table (refs s1)) as [t| | |] eqn:Ht; cbn [bind] in H; try discriminate H.
  injection H as <- <-.
  destruct (refs_table_spec _ _ Ht Hp1) as [Hkeys Hent].
  assert (Hall : forall k, allk s1 k -> In k (map fst t)).
  { intros k [Hk|(id & sc & x & a & H1 & _)]; [rewrite Hkeys; exact Hk|]. rewrite Hs1 in H1. destruct H1. }
  split.
  - intros k Hk. apply Hall, Hrels, Hk.
  - intros k sc Hin k' Hk'. destruct (Hent k sc Hin) as (v & a & H1 & H2).
    apply Hall. eapply (cast_schema_ks v a sc (allk s1) H2); [|exact Hk'].
    eapply (inv_refs s1 Hi1), H1.
Qed.

(** non-vacuity: a recursive schema applied twice from inside a function; two components, both
    referenced, the table is closed *)
Definition ex_rec_P : prog :=
  [[ mk_decl None false [] [7] (ERec 0 1 9 (EObj [EProp 20 None (ETerm [] (EBind 7)); EProp 21 None (EArr (ETerm [] (EBind 9)))]));
     mk_decl None false [] [7; 8] (EObj [EProp 22 None (ESub (EApp (EDecl 0 0) [ETerm [] (EBind 7)]));
                                          EProp 23 None (ESub (EApp (EDecl 0 0) [ETerm [] (EBind 8)]))]) ]].
Definition ex_rec_rs : list expr :=
  [ERel (ETerm [] (EUri [inl 30] None))
        [EXfer [0] None (ECont (Some (EApp (EDecl 0 1) [ETerm [] (EPrim 1); ETerm [] (EPrim 3)])) []) None]].

Lemma ex_rec_two_components :
  exists rels sc1 sc2 k1 k2, eval_program false ex_rec_P 50 ex_rec_rs = Ok (rels, [(k1, sc1); (k2, sc2)]) /\ k1 <> k2 /\
    In k1 (flat_map ks_relation rels) /\ In k2 (flat_map ks_relation rels).
Proof. eexists _, _, _, _, _. split; [vm_compute; reflexivity|]. split; [discriminate|]. split; cbn; auto 10. Qed.
