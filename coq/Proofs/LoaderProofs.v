(** Proofs about Model/Loader.v (property C10). *)
From Coq Require Import Lia Arith PeanoNat Permutation.
From Oal Require Import Loader.

Lemma mem_In x l : mem x l = true <-> In x l.
Proof.
  unfold mem. rewrite existsb_exists. split.
  - intros [y [Hin Hy]]. apply N.eqb_eq in Hy. subst. exact Hin.
  - intros H. exists x. split; [exact H|apply N.eqb_refl].
Qed.

Lemma mem_not_In x l : mem x l = false <-> ~ In x l.
Proof. rewrite <- mem_In. destruct (mem x l); split; congruence. Qed.

Lemma NoDup_app_intro {A} (a b : list A) :
  NoDup a -> NoDup b -> (forall x, In x a -> ~ In x b) -> NoDup (a ++ b).
Proof.
  induction a as [|x a IH]; intros Ha Hb Hd; [exact Hb|].
  cbn [app]. inversion Ha; subst. constructor.
  - intros C. apply in_app_or in C. destruct C as [C|C]; [contradiction|]. apply (Hd x); [left; reflexivity|exact C].
  - apply IH; [assumption|assumption|]. intros y Hy. apply Hd. right. exact Hy.
Qed.

(** projections of a trace *)
Fixpoint loads (tr : list event) : list N :=
  match tr with [] => [] | ELoad l :: tr' => l :: loads tr' | _ :: tr' => loads tr' end.
Fixpoint parses (tr : list event) : list N :=
  match tr with [] => [] | EParse l :: tr' => l :: parses tr' | _ :: tr' => parses tr' end.
Fixpoint compiles (tr : list event) : list N :=
  match tr with [] => [] | ECompile l :: tr' => l :: compiles tr' | _ :: tr' => compiles tr' end.

Section Proofs.
Variable fs : N -> file.
Variable compile_ok : N -> bool.
Variable topo : list N -> list (N * N) -> list N + N.

Definition imports_of (n : N) : list N := match fs n with Good is => is | _ => [] end.
Definition good (n : N) : Prop := exists is, fs n = Good is.

(** reachability in the import graph *)
Inductive reachable (base : N) : N -> Prop :=
| reach_base : reachable base base
| reach_step n t : reachable base n -> In t (imports_of n) -> reachable base t.

(** paths of length >= 1 along edges (imported, importer) *)
Inductive path (es : list (N * N)) : N -> N -> Prop :=
| path_one a b : In (a, b) es -> path es a b
| path_cons a b c : In (a, b) es -> path es b c -> path es a c.

Lemma path_incl es es' : (forall x y, In (x, y) es -> In (x, y) es') ->
  forall a b, path es a b -> path es' a b.
Proof.
  intros Hsub a b Hp. induction Hp as [x y Hxy|x y z Hxy _ IH]; [apply path_one|eapply path_cons]; eauto.
Qed.

(** [a] strictly before [b] in [l] *)
Definition before (a b : N) (l : list N) : Prop :=
  exists l1 l2 l3, l = l1 ++ a :: l2 ++ b :: l3.

(** contract of petgraph::algo::toposort, checked by the harness on every graph it sees *)
Definition topo_spec : Prop :=
  forall ns es, NoDup ns -> (forall a b, In (a, b) es -> In a ns /\ In b ns) ->
  match topo ns es with
  | inl order => Permutation order ns /\ (forall a b, In (a, b) es -> before a b order)
                 /\ (forall a, ~ path es a a)
  | inr l => In l ns /\ path es l l
  end.

(** * validate *)
Lemma validate_trace is : forall tr r tr',
  validate fs is tr = (r, tr') ->
  loads tr' = loads tr /\ parses tr' = parses tr /\ compiles tr' = compiles tr.
Proof.
  induction is as [|t is IH]; intros tr r tr' H; cbn [validate] in H.
  - inversion H; subst. auto.
  - destruct (fs t); [inversion H; subst; cbn; auto| |]; apply IH in H; cbn in H; exact H.
Qed.

Lemma validate_none is : forall tr tr',
  validate fs is tr = (None, tr') -> forall t, In t is -> fs t <> Missing.
Proof.
  induction is as [|x is IH]; intros tr tr' H t Hin; [destruct Hin|].
  cbn [validate] in H. destruct (fs x) eqn:E; [discriminate| |];
    (destruct Hin as [->|Hin]; [congruence|eapply IH; eassumption]).
Qed.

Lemma validate_some is : forall tr tr' t,
  validate fs is tr = (Some t, tr') -> In t is /\ fs t = Missing.
Proof.
  induction is as [|x is IH]; intros tr tr' t H; cbn [validate] in H; [discriminate|].
  destruct (fs x) eqn:E.
  - inversion H; subst. split; [left; reflexivity|exact E].
  - destruct (IH _ _ _ H). split; [right|]; assumption.
  - destruct (IH _ _ _ H). split; [right|]; assumption.
Qed.

(** * visit *)
Record visit_post (n : N) (is : list N) (st st' : lstate) (new : list N) : Prop := {
  vp_nodes : nodes st' = new ++ nodes st;
  vp_queue : queue st' = new ++ queue st;
  vp_edges : edges st' = rev (map (fun t => (t, n)) is) ++ edges st;
  vp_loads : loads (trace st') = new ++ loads (trace st);
  vp_parses : parses (trace st') = new ++ parses (trace st);
  vp_compiles : compiles (trace st') = compiles (trace st);
  vp_incl : incl new is;
  vp_fresh : forall t, In t new -> good t /\ ~ In t (nodes st);
  vp_nodup : NoDup new;
  vp_all : forall t, In t is -> In t (nodes st')
}.

Lemma visit_ok n is : forall st st',
  visit fs n is st = inl st' -> exists new, visit_post n is st st' new.
Proof.
  induction is as [|t is IH]; intros st st' H; cbn [visit] in H.
  - inversion H; subst. exists []. constructor; cbn [app map rev].
    + reflexivity.
    + reflexivity.
    + reflexivity.
    + reflexivity.
    + reflexivity.
    + reflexivity.
    + apply incl_nil_l.
    + intros ? [].
    + constructor.
    + intros ? [].
  - destruct (mem t (nodes st)) eqn:Em.
    + apply IH in H. destruct H as [new P]. destruct P. cbn [nodes queue edges trace] in *.
      exists new. constructor; cbn [map rev].
      * assumption.
      * assumption.
      * rewrite vp_edges0, <- app_assoc. reflexivity.
      * assumption.
      * assumption.
      * assumption.
      * apply incl_tl. assumption.
      * assumption.
      * assumption.
      * intros x [->|Hx]; [|auto]. rewrite vp_nodes0. apply in_or_app. right. apply mem_In. exact Em.
    + destruct (fs t) as [| |tis] eqn:Et; try discriminate H.
      apply IH in H. destruct H as [new P]. destruct P. cbn [nodes queue edges trace loads parses compiles] in *.
      apply mem_not_In in Em.
      exists (new ++ [t]). constructor; cbn [map rev]; rewrite <- ?app_assoc; cbn [app].
      * assumption.
      * assumption.
      * assumption.
      * assumption.
      * assumption.
      * assumption.
      * intros x Hx. apply in_app_or in Hx. destruct Hx as [Hx|[->|[]]]; [right; auto|left; reflexivity].
      * intros x Hx. apply in_app_or in Hx. destruct Hx as [Hx|[->|[]]].
        -- destruct (vp_fresh0 x Hx) as [A B]. split; [exact A|]. intros C. apply B. right. exact C.
        -- split; [exists tis; exact Et|exact Em].
      * apply NoDup_app_intro; [exact vp_nodup0|constructor; [intros []|constructor]|].
        intros x Hx [E|[]]. subst x. destruct (vp_fresh0 t Hx) as [_ B]. apply B. left. reflexivity.
      * intros x [->|Hx]; [|auto]. rewrite vp_nodes0. apply in_or_app. right. left. reflexivity.
Qed.

Lemma visit_err n is : forall st e tr,
  visit fs n is st = inr (e, tr) -> compiles (trace st) = [] -> compiles tr = []
  /\ exists t, In t is /\ ((e = ErrParse t /\ fs t = Bad) \/ (e = ErrLoad t /\ fs t = Missing)).
Proof.
  induction is as [|t is IH]; intros st e tr H Hc; cbn [visit] in H; [discriminate|].
  destruct (mem t (nodes st)).
  - destruct (IH _ _ _ H Hc) as (A & x & Hx & B). split; [exact A|]. exists x. split; [right; exact Hx|exact B].
  - destruct (fs t) eqn:Et.
    + inversion H; subst. cbn. split; [exact Hc|]. exists t. split; [left; reflexivity|]. right. auto.
    + inversion H; subst. cbn. split; [exact Hc|]. exists t. split; [left; reflexivity|]. left. auto.
    + destruct (IH _ _ _ H) as (A & x & Hx & B); [cbn; exact Hc|]. split; [exact A|]. exists x. split; [right; exact Hx|exact B].
Qed.

(** * the loop invariant *)
Record Inv (base : N) (st : lstate) : Prop := {
  i_nodup : NoDup (nodes st);
  i_qnodup : NoDup (queue st);
  i_qincl : incl (queue st) (nodes st);
  i_good : forall n, In n (nodes st) -> good n;
  i_done : forall n, In n (nodes st) -> ~ In n (queue st) ->
           forall t, In t (imports_of n) -> In t (nodes st) /\ In (t, n) (edges st);
  i_edges : forall t n, In (t, n) (edges st) -> In n (nodes st) /\ In t (nodes st) /\ In t (imports_of n);
  i_reach : forall n, In n (nodes st) -> reachable base n;
  i_loads : loads (trace st) = nodes st;
  i_parses : parses (trace st) = nodes st;
  i_compiles : compiles (trace st) = [];
  i_base : In base (nodes st)
}.

Lemma Inv_init base is : fs base = Good is ->
  Inv base (mk_lstate [base] [] [base] [EParse base; ELoad base]).
Proof.
  intros H. constructor; cbn [nodes queue edges trace loads parses compiles].
  - constructor; [intros []|constructor].
  - constructor; [intros []|constructor].
  - apply incl_refl.
  - intros n [E|[]]. subst n. exists is. exact H.
  - intros n [E|[]] Hn. exfalso. apply Hn. left. exact E.
  - intros t n [].
  - intros n [E|[]]. subst n. constructor.
  - reflexivity.
  - reflexivity.
  - reflexivity.
  - left. reflexivity.
Qed.

Lemma Inv_step base st n q is tr st' new :
  Inv base st -> queue st = n :: q -> fs n = Good is ->
  validate fs is (trace st) = (None, tr) ->
  visit_post n is (mk_lstate (nodes st) (edges st) q tr) st' new ->
  Inv base st'.
Proof.
  intros I Hq Hn Hv P. destruct I, P. cbn [nodes queue edges trace] in *.
  destruct (validate_trace _ _ _ _ Hv) as (Vl & Vp & Vc).
  rewrite Hq in *.
  assert (Hnq : ~ In n q) by (inversion i_qnodup0; assumption).
  assert (Hqd : NoDup q) by (inversion i_qnodup0; assumption).
  assert (Hnn : In n (nodes st)) by (apply i_qincl0; left; reflexivity).
  assert (Himp : imports_of n = is) by (unfold imports_of; rewrite Hn; reflexivity).
  assert (Hfresh : forall x, In x new -> ~ In x (nodes st)) by (intros x Hx; apply (vp_fresh0 x Hx)).
  constructor.
  - rewrite vp_nodes0. apply NoDup_app_intro; assumption.
  - rewrite vp_queue0. apply NoDup_app_intro; [assumption|assumption|].
    intros x Hx C. apply (Hfresh x Hx). apply i_qincl0. right. exact C.
  - rewrite vp_queue0, vp_nodes0. intros x Hx. apply in_app_or in Hx. apply in_or_app.
    destruct Hx as [Hx|Hx]; [left; exact Hx|right; apply i_qincl0; right; exact Hx].
  - rewrite vp_nodes0. intros x Hx. apply in_app_or in Hx. destruct Hx as [Hx|Hx]; [apply (vp_fresh0 x Hx)|auto].
  - rewrite vp_nodes0, vp_queue0, vp_edges0. intros x Hx Hnx t Ht.
    apply in_app_or in Hx. destruct Hx as [Hx|Hx].
    { exfalso. apply Hnx. apply in_or_app. left. exact Hx. }
    destruct (N.eq_dec x n) as [->|Hne].
    + rewrite Himp in Ht. split.
      * rewrite <- vp_nodes0. apply vp_all0. exact Ht.
      * apply in_or_app. left. rewrite <- in_rev. apply in_map_iff. exists t. split; [reflexivity|exact Ht].
    + assert (Hxq : ~ In x (n :: q)).
      { intros [C|C]; [congruence|]. apply Hnx. apply in_or_app. right. exact C. }
      destruct (i_done0 x Hx Hxq t Ht) as [A B]. split; apply in_or_app; right; assumption.
  - rewrite vp_nodes0, vp_edges0. intros t m Hin. apply in_app_or in Hin. destruct Hin as [Hin|Hin].
    + rewrite <- in_rev in Hin. apply in_map_iff in Hin. destruct Hin as [t' [Heq Ht']]. inversion Heq; subst t' m.
      split; [apply in_or_app; right; exact Hnn|]. split; [rewrite <- vp_nodes0; apply vp_all0; exact Ht'|].
      rewrite Himp. exact Ht'.
    + destruct (i_edges0 t m Hin) as (A & B & C). repeat split; try (apply in_or_app; right); assumption.
  - rewrite vp_nodes0. intros x Hx. apply in_app_or in Hx. destruct Hx as [Hx|Hx]; [|auto].
    apply reach_step with (n := n); [apply i_reach0; exact Hnn|]. rewrite Himp. apply vp_incl0. exact Hx.
  - rewrite vp_loads0, vp_nodes0, Vl, i_loads0. reflexivity.
  - rewrite vp_parses0, vp_nodes0, Vp, i_parses0. reflexivity.
  - rewrite vp_compiles0, Vc. exact i_compiles0.
  - rewrite vp_nodes0. apply in_or_app. right. exact i_base0.
Qed.

(** the loop: on normal exit the invariant holds and the work list is empty *)
Lemma loop_inv base : forall fuel st st',
  Inv base st -> loop fs fuel st = Some (inl st') -> Inv base st' /\ queue st' = [].
Proof.
  induction fuel as [|fuel IH]; intros st st' I H; [discriminate|].
  cbn [loop] in H. destruct (queue st) as [|n q] eqn:Hq.
  - inversion H; subst. split; assumption.
  - assert (Hg : good n). { apply (i_good _ _ I). apply (i_qincl _ _ I). rewrite Hq. left. reflexivity. }
    destruct Hg as [is Hn]. rewrite Hn in H.
    destruct (validate fs is (trace st)) as [[t|] tr] eqn:Hv; [discriminate|].
    destruct (visit fs n is (mk_lstate (nodes st) (edges st) q tr)) as [st1|e] eqn:Hvis; [|discriminate].
    destruct (visit_ok _ _ _ _ Hvis) as [new P].
    apply (IH st1 st'); [|exact H]. eapply Inv_step; eassumption.
Qed.

Definition err_spec (base : N) (e : lerr) : Prop :=
  match e with
  | ErrInvalidModule t n => fs t = Missing /\ reachable base n /\ In t (imports_of n)
  | ErrParse t => fs t = Bad /\ reachable base t
  | ErrLoad t => fs t = Missing /\ exists n, reachable base n /\ In t (imports_of n)
  | ErrCycle _ | ErrCompile _ => False
  end.

Lemma loop_err base : forall fuel st e tr,
  Inv base st -> loop fs fuel st = Some (inr (e, tr)) -> compiles tr = [] /\ err_spec base e.
Proof.
  induction fuel as [|fuel IH]; intros st e tr I H; [discriminate|].
  cbn [loop] in H. destruct (queue st) as [|n q] eqn:Hq; [discriminate|].
  assert (Hnn : In n (nodes st)). { apply (i_qincl _ _ I). rewrite Hq. left. reflexivity. }
  destruct (i_good _ _ I n Hnn) as [is Hn]. rewrite Hn in H.
  assert (Himp : imports_of n = is) by (unfold imports_of; rewrite Hn; reflexivity).
  destruct (validate fs is (trace st)) as [[t|] tr1] eqn:Hv.
  - inversion H; subst. destruct (validate_trace _ _ _ _ Hv) as (_ & _ & Vc).
    destruct (validate_some _ _ _ _ Hv) as [Hin Hm].
    split; [rewrite Vc; apply (i_compiles _ _ I)|]. cbn. split; [exact Hm|]. split; [apply (i_reach _ _ I); exact Hnn|].
    unfold imports_of. rewrite Hn. exact Hin.
  - destruct (visit fs n is (mk_lstate (nodes st) (edges st) q tr1)) as [st1|[e1 tr2]] eqn:Hvis.
    + destruct (visit_ok _ _ _ _ Hvis) as [new P]. eapply IH; [|exact H]. eapply Inv_step; eassumption.
    + inversion H; subst. destruct (validate_trace _ _ _ _ Hv) as (_ & _ & Vc).
      destruct (visit_err _ _ _ _ _ Hvis) as (A & x & Hx & B).
      { cbn [trace]. rewrite Vc. apply (i_compiles _ _ I). }
      split; [exact A|].
      assert (Rn : reachable base n) by (apply (i_reach _ _ I); exact Hnn).
      destruct B as [[-> Hb]|[-> Hb]]; cbn.
      * split; [exact Hb|]. apply reach_step with (n := n); [exact Rn|unfold imports_of; rewrite Hn; exact Hx].
      * split; [exact Hb|]. exists n. split; [exact Rn|unfold imports_of; rewrite Hn; exact Hx].
Qed.

(** closure: with an empty work list every reachable module has been discovered *)
Lemma closed_reach base st : Inv base st -> queue st = [] ->
  forall n, reachable base n -> In n (nodes st).
Proof.
  intros I Hq n R. induction R as [|n t R IH Ht]; [apply (i_base _ _ I)|].
  apply (i_done _ _ I n IH); [rewrite Hq; intros []|exact Ht].
Qed.

(** * compile_all *)
Lemma compile_all_ok order : forall tr tr',
  compile_all compile_ok order tr = (None, tr') ->
  compiles tr' = rev order ++ compiles tr /\ loads tr' = loads tr /\ parses tr' = parses tr.
Proof.
  induction order as [|l order IH]; intros tr tr' H; cbn [compile_all] in H.
  - inversion H; subst. auto.
  - destruct (compile_ok l); [|discriminate]. apply IH in H. cbn in H. destruct H as (A & B & C).
    cbn [rev]. rewrite <- app_assoc. auto.
Qed.

Lemma compile_all_true order : forall tr tr',
  compile_all compile_ok order tr = (None, tr') -> forall l, In l order -> compile_ok l = true.
Proof.
  induction order as [|x order IH]; intros tr tr' H l Hin; [destruct Hin|].
  cbn [compile_all] in H. destruct (compile_ok x) eqn:E; [|discriminate].
  destruct Hin as [<-|Hin]; [exact E|eapply IH; eassumption].
Qed.

(** * main theorems *)
Hypothesis Htopo : topo_spec.

Lemma edges_wf base st : Inv base st ->
  forall a b, In (a, b) (rev (edges st)) -> In a (rev (nodes st)) /\ In b (rev (nodes st)).
Proof.
  intros I a b H. rewrite <- in_rev in H. destruct (i_edges _ _ I a b H) as (A & B & _).
  split; apply -> in_rev; assumption.
Qed.

Lemma before_rev_app a b order l :
  before a b order -> before a b (rev (rev order ++ l) ) \/ True.
Proof. auto. Qed.

Theorem load_ok_spec fuel base mods tr :
  load fs compile_ok topo fuel base = LOk mods tr ->
  (* every reachable module is loaded and parsed exactly once, and nothing else is *)
  NoDup (loads tr) /\ (forall l, In l (loads tr) <-> reachable base l) /\
  parses tr = loads tr /\
  (* compiled exactly once, after everything it imports *)
  NoDup (compiles tr) /\ (forall l, In l (compiles tr) <-> reachable base l) /\
  (forall n t, reachable base n -> In t (imports_of n) -> before t n (rev (compiles tr))) /\
  (* all reachable modules parse, and the import graph has no cycle *)
  (forall l, reachable base l -> good l) /\
  (forall es, (forall a b, In (a, b) es <-> (reachable base b /\ In a (imports_of b))) -> forall a, ~ path es a a).
Proof.
  unfold load. destruct (fs base) as [| |bis] eqn:Hb; try discriminate.
  destruct (loop fs fuel _) as [[st|[e tr0]]|] eqn:Hl; try discriminate.
  destruct (loop_inv base _ _ _ (Inv_init base bis Hb) Hl) as [I Hq].
  pose proof (Htopo (rev (nodes st)) (rev (edges st))) as Ht.
  destruct (topo (rev (nodes st)) (rev (edges st))) as [order|l]; [|discriminate].
  destruct (compile_all compile_ok order (trace st)) as [[e|] tr1] eqn:Hc; [discriminate|].
  intros H. inversion H; subst mods tr1. clear H.
  destruct (compile_all_ok _ _ _ Hc) as (Cc & Cl & Cp).
  destruct Ht as (Hperm & Hbefore & Hacyc).
  { apply NoDup_rev. apply (i_nodup _ _ I). }
  { apply (edges_wf base). exact I. }
  rewrite (i_compiles _ _ I), app_nil_r in Cc.
  assert (Hnodes : forall l, In l (nodes st) <-> reachable base l).
  { intros l. split; [apply (i_reach _ _ I)|apply closed_reach; assumption]. }
  split; [rewrite Cl, (i_loads _ _ I); apply (i_nodup _ _ I)|].
  split; [intros l; rewrite Cl, (i_loads _ _ I); apply Hnodes|].
  split; [rewrite Cp, Cl, (i_parses _ _ I), (i_loads _ _ I); reflexivity|].
  split.
  { rewrite Cc. apply NoDup_rev. apply (Permutation_NoDup (l := rev (nodes st))).
    - symmetry. exact Hperm.
    - apply NoDup_rev. apply (i_nodup _ _ I). }
  split.
  { intros l. rewrite Cc, <- in_rev. rewrite <- Hnodes. rewrite (in_rev (nodes st)).
    split; intros X; [eapply Permutation_in; [exact Hperm|exact X] | eapply Permutation_in; [symmetry; exact Hperm|exact X]]. }
  split.
  { intros n t Rn Hin. rewrite Cc, rev_involutive. apply Hbefore. rewrite <- in_rev.
    apply (i_done _ _ I n); [apply Hnodes; exact Rn|rewrite Hq; intros []|exact Hin]. }
  split.
  { intros l R. apply (i_good _ _ I). apply Hnodes. exact R. }
  intros es Hes a Hp. apply (Hacyc a).
  assert (Hsub : forall x y, In (x, y) es -> In (x, y) (rev (edges st))).
  { intros x y Hxy. apply Hes in Hxy. destruct Hxy as [Ry Hx]. rewrite <- in_rev.
    apply (i_done _ _ I y); [apply Hnodes; exact Ry|rewrite Hq; intros []|exact Hx]. }
  exact (path_incl _ _ Hsub _ _ Hp).
Qed.

Theorem load_ok_compiled fuel base mods tr :
  load fs compile_ok topo fuel base = LOk mods tr -> forall l, In l (compiles tr) -> compile_ok l = true.
Proof.
  unfold load. destruct (fs base) as [| |bis] eqn:Hb; try discriminate.
  destruct (loop fs fuel _) as [[st|[e tr0]]|] eqn:Hl; try discriminate.
  destruct (loop_inv base _ _ _ (Inv_init base bis Hb) Hl) as [I Hq].
  destruct (topo _ _) as [order|]; [|discriminate].
  destruct (compile_all compile_ok order (trace st)) as [[e|] tr1] eqn:Hc; [discriminate|].
  intros H l Hin. inversion H; subst. destruct (compile_all_ok _ _ _ Hc) as (Cc & _).
  rewrite Cc, (i_compiles _ _ I), app_nil_r, <- in_rev in Hin. eapply compile_all_true; eassumption.
Qed.

(** an import cycle (a self import included) among the reachable modules is reported
    as a cycle error, provided every reachable module exists and parses *)
Theorem load_cycle_spec fuel base l tr :
  load fs compile_ok topo fuel base = LErr (ErrCycle l) tr ->
  reachable base l /\ compiles tr = [] /\
  exists es, (forall a b, In (a, b) es -> reachable base b /\ In a (imports_of b)) /\ path es l l.
Proof.
  unfold load. destruct (fs base) as [| |bis] eqn:Hb; try discriminate.
  destruct (loop fs fuel _) as [[st|[e tr0]]|] eqn:Hl; try discriminate.
  - destruct (loop_inv base _ _ _ (Inv_init base bis Hb) Hl) as [I Hq].
    pose proof (Htopo (rev (nodes st)) (rev (edges st))) as Ht.
    destruct (topo (rev (nodes st)) (rev (edges st))) as [order|l0].
    + destruct (compile_all compile_ok order (trace st)) as [[e|] tr1] eqn:Hc; [|discriminate].
      intros H. inversion H; subst. exfalso. clear -Hc. revert Hc. generalize (trace st).
      induction order as [|x order IH]; intros t0 Hc; cbn [compile_all] in Hc; [discriminate|].
      destruct (compile_ok x); [eapply IH; exact Hc|discriminate].
    + intros H. inversion H; subst l0 tr. destruct Ht as [Hin Hp].
      { apply NoDup_rev. apply (i_nodup _ _ I). }
      { apply (edges_wf base). exact I. }
      split; [apply (i_reach _ _ I); rewrite in_rev; exact Hin|]. split; [apply (i_compiles _ _ I)|].
      exists (rev (edges st)). split; [|exact Hp].
      intros a b Hab. rewrite <- in_rev in Hab. destruct (i_edges _ _ I a b Hab) as (A & _ & C).
      split; [apply (i_reach _ _ I); exact A|exact C].
  - intros H. inversion H; subst. exfalso.
    destruct (loop_err base _ _ _ _ (Inv_init base bis Hb) Hl) as (_ & C). exact C.
Qed.

(** a missing import is reported as that import, from the module that imports it,
    and nothing has been compiled *)
Theorem load_missing_spec fuel base t n tr :
  load fs compile_ok topo fuel base = LErr (ErrInvalidModule t n) tr ->
  fs t = Missing /\ reachable base n /\ In t (imports_of n) /\ compiles tr = [].
Proof.
  unfold load. destruct (fs base) as [| |bis] eqn:Hb; try discriminate.
  destruct (loop fs fuel _) as [[st|[e tr0]]|] eqn:Hl; try discriminate.
  - destruct (topo _ _); [|discriminate].
    destruct (compile_all compile_ok l (trace st)) as [[e|] tr1] eqn:Hc; [|discriminate].
    intros H. inversion H; subst. exfalso. clear -Hc. revert Hc. generalize (trace st).
    induction l as [|x order IH]; intros t0 Hc; cbn [compile_all] in Hc; [discriminate|].
    destruct (compile_ok x); [eapply IH; exact Hc|discriminate].
  - intros H. inversion H; subst.
    destruct (loop_err base _ _ _ _ (Inv_init base bis Hb) Hl) as (A & X & Y & Z). auto.
Qed.

(** no error other than a compile error leaves a compiled module behind *)
Theorem load_err_compiles fuel base e tr :
  load fs compile_ok topo fuel base = LErr e tr -> (forall l, e <> ErrCompile l) -> compiles tr = [].
Proof.
  unfold load. destruct (fs base) as [| |bis] eqn:Hb.
  - intros H _. inversion H; subst. reflexivity.
  - intros H _. inversion H; subst. reflexivity.
  - destruct (loop fs fuel _) as [[st|[e0 tr0]]|] eqn:Hl; try discriminate.
    + destruct (loop_inv base _ _ _ (Inv_init base bis Hb) Hl) as [I Hq].
      destruct (topo _ _).
      * destruct (compile_all compile_ok l (trace st)) as [[e1|] tr1] eqn:Hc; [|discriminate].
        intros H Hne. inversion H; subst. exfalso. clear -Hc Hne. revert Hc. generalize (trace st).
        induction l as [|x order IH]; intros t0 Hc; cbn [compile_all] in Hc; [discriminate|].
        destruct (compile_ok x); [eapply IH; exact Hc|]. inversion Hc; subst. apply (Hne x). reflexivity.
      * intros H _. inversion H; subst. apply (i_compiles _ _ I).
    + intros H _. inversion H; subst.
      destruct (loop_err base _ _ _ _ (Inv_init base bis Hb) Hl) as (A & _). exact A.
Qed.

Lemma compile_all_err order : forall tr e tr',
  compile_all compile_ok order tr = (Some e, tr') -> exists l, e = ErrCompile l /\ In l order /\ compile_ok l = false.
Proof.
  induction order as [|x order IH]; intros tr e tr' H; cbn [compile_all] in H; [discriminate|].
  destruct (compile_ok x) eqn:E.
  - destruct (IH _ _ _ H) as (l & A & B & C). exists l. auto using in_cons.
  - inversion H; subst. exists x. split; [reflexivity|]. split; [left; reflexivity|exact E].
Qed.

(** every error names a defect of the reachable part of the import graph *)
Definition defect (base : N) (e : lerr) : Prop :=
  match e with
  | ErrInvalidModule t n => fs t = Missing /\ reachable base n /\ In t (imports_of n)
  | ErrParse t => fs t = Bad /\ reachable base t
  | ErrLoad t => fs t = Missing /\ (t = base \/ exists n, reachable base n /\ In t (imports_of n))
  | ErrCycle l => reachable base l /\
      exists es, (forall a b, In (a, b) es -> reachable base b /\ In a (imports_of b)) /\ path es l l
  | ErrCompile l => reachable base l /\ compile_ok l = false
  end.

Theorem load_err_spec fuel base e tr :
  load fs compile_ok topo fuel base = LErr e tr -> defect base e.
Proof.
  intros H. destruct e as [t|t|t n|l|l].
  - unfold load in H. destruct (fs base) as [| |bis] eqn:Hb.
    + inversion H; subst. cbn. auto.
    + inversion H.
    + destruct (loop fs fuel _) as [[st|[e0 tr0]]|] eqn:Hl; try discriminate.
      * destruct (topo _ _); [|discriminate].
        destruct (compile_all compile_ok l (trace st)) as [[e1|] tr1] eqn:Hc; [|discriminate].
        destruct (compile_all_err _ _ _ _ Hc) as (x & -> & _). inversion H.
      * inversion H; subst.
        destruct (loop_err base _ _ _ _ (Inv_init base bis Hb) Hl) as (_ & A & n & B & C).
        cbn. split; [exact A|]. right. exists n. auto.
  - unfold load in H. destruct (fs base) as [| |bis] eqn:Hb.
    + inversion H.
    + inversion H; subst. cbn. split; [exact Hb|constructor].
    + destruct (loop fs fuel _) as [[st|[e0 tr0]]|] eqn:Hl; try discriminate.
      * destruct (topo _ _); [|discriminate].
        destruct (compile_all compile_ok l (trace st)) as [[e1|] tr1] eqn:Hc; [|discriminate].
        destruct (compile_all_err _ _ _ _ Hc) as (x & -> & _). inversion H.
      * inversion H; subst.
        destruct (loop_err base _ _ _ _ (Inv_init base bis Hb) Hl) as (_ & A). exact A.
  - destruct (load_missing_spec _ _ _ _ _ H) as (A & B & C & _). cbn. auto.
  - destruct (load_cycle_spec _ _ _ _ H) as (A & _ & B). cbn. auto.
  - unfold load in H. destruct (fs base) as [| |bis] eqn:Hb; try (inversion H; fail).
    destruct (loop fs fuel _) as [[st|[e0 tr0]]|] eqn:Hl; try discriminate.
    + destruct (loop_inv base _ _ _ (Inv_init base bis Hb) Hl) as [I Hq].
      pose proof (Htopo (rev (nodes st)) (rev (edges st))) as Ht.
      destruct (topo _ _) as [order|l0]; [|discriminate].
      destruct (compile_all compile_ok order (trace st)) as [[e1|] tr1] eqn:Hc; [|discriminate].
      destruct (compile_all_err _ _ _ _ Hc) as (x & E & Hin & Hf). inversion H; subst. inversion H1; subst.
      destruct Ht as (Hperm & _).
      { apply NoDup_rev. apply (i_nodup _ _ I). }
      { apply (edges_wf base). exact I. }
      cbn. split; [|exact Hf]. apply (i_reach _ _ I). rewrite in_rev. eapply Permutation_in; eassumption.
    + inversion H; subst.
      destruct (loop_err base _ _ _ _ (Inv_init base bis Hb) Hl) as (_ & A). destruct A.
Qed.

(** * termination: the loop runs at most once per module of any finite import-closed universe *)
Lemma loop_fuel base univ :
  (forall n, In n univ -> incl (imports_of n) univ) ->
  forall fuel st, Inv base st -> incl (nodes st) univ ->
  (length univ - length (nodes st)) + length (queue st) < fuel ->
  loop fs fuel st <> None.
Proof.
  intros Hclosed. induction fuel as [|fuel IH]; intros st I Hincl Hm; [lia|].
  cbn [loop]. destruct (queue st) as [|n q] eqn:Hq; [discriminate|].
  assert (Hnn : In n (nodes st)). { apply (i_qincl _ _ I). rewrite Hq. left. reflexivity. }
  destruct (i_good _ _ I n Hnn) as [is Hn]. rewrite Hn.
  destruct (validate fs is (trace st)) as [[t|] tr] eqn:Hv; [discriminate|].
  destruct (visit fs n is (mk_lstate (nodes st) (edges st) q tr)) as [st1|e] eqn:Hvis; [|discriminate].
  destruct (visit_ok _ _ _ _ Hvis) as [new P].
  assert (I1 : Inv base st1) by (eapply Inv_step; eassumption).
  destruct P. cbn [nodes queue] in *.
  assert (Hincl1 : incl (nodes st1) univ).
  { rewrite vp_nodes0. intros x Hx. apply in_app_or in Hx. destruct Hx as [Hx|Hx]; [|auto].
    apply (Hclosed n (Hincl n Hnn)). unfold imports_of. rewrite Hn. apply vp_incl0. exact Hx. }
  apply IH; [exact I1|exact Hincl1|].
  pose proof (NoDup_incl_length (i_nodup _ _ I1) Hincl1) as Hlen.
  rewrite vp_nodes0, vp_queue0, !app_length in *. cbn [length] in Hm. lia.
Qed.

Theorem load_terminates base univ :
  In base univ -> (forall n, In n univ -> incl (imports_of n) univ) ->
  load fs compile_ok topo (S (S (length univ))) base <> LFuel.
Proof.
  intros Hb Hclosed. unfold load. destruct (fs base) as [| |bis] eqn:Eb; try discriminate.
  pose proof (loop_fuel base univ Hclosed (S (S (length univ))) _ (Inv_init base bis Eb)) as H.
  destruct (loop fs _ _) as [[st|[e tr]]|].
  - destruct (topo _ _); [destruct (compile_all _ _ _) as [[?|] ?]|]; discriminate.
  - discriminate.
  - exfalso. apply H; [|cbn; lia|reflexivity]. intros x [<-|[]]. exact Hb.
Qed.

End Proofs.

(** * the verdict does not depend on the order of use statements *)
Definition same_files (fs fs' : N -> file) : Prop :=
  forall n, match fs n, fs' n with
            | Good a, Good b => forall t, In t a <-> In t b
            | Missing, Missing | Bad, Bad => True
            | _, _ => False
            end.

Lemma same_imports fs fs' : same_files fs fs' -> forall n t, In t (imports_of fs n) -> In t (imports_of fs' n).
Proof.
  intros S n t. unfold imports_of. specialize (S n). destruct (fs n), (fs' n); try contradiction; try (intros []).
  apply S.
Qed.

Lemma same_files_sym fs fs' : same_files fs fs' -> same_files fs' fs.
Proof.
  intros S n. specialize (S n). destruct (fs n), (fs' n); auto. intros t. symmetry. apply S.
Qed.

Lemma same_reachable fs fs' base : same_files fs fs' -> forall n, reachable fs base n -> reachable fs' base n.
Proof.
  intros S n R. induction R as [|n t R IH Ht]; [constructor|].
  eapply reach_step; [exact IH|]. eapply same_imports; eassumption.
Qed.

Theorem load_use_order fs fs' compile_ok topo topo' fuel fuel' base mods tr e tr' :
  topo_spec topo -> topo_spec topo' -> same_files fs fs' ->
  load fs compile_ok topo fuel base = LOk mods tr ->
  load fs' compile_ok topo' fuel' base = LErr e tr' -> False.
Proof.
  intros T T' S Hok Herr.
  destruct (load_ok_spec fs compile_ok topo T _ _ _ _ Hok) as (_ & _ & _ & _ & Hcomp & _ & Hgood & Hacyc).
  pose proof (load_err_spec fs' compile_ok topo' T' _ _ _ _ Herr) as D.
  pose proof (same_files_sym _ _ S) as S'.
  assert (Hmiss : forall t n, fs' t = Missing -> reachable fs' base n -> In t (imports_of fs' n) -> False).
  { intros t n Hm R Hin. destruct (Hgood t) as [is Ht].
    - eapply reach_step; [eapply same_reachable; eassumption|]. eapply same_imports; eassumption.
    - specialize (S t). rewrite Ht, Hm in S. exact S. }
  destruct e as [t|t|t n|l|l]; cbn in D.
  - destruct D as [Hm [->|[n [R Hin]]]]; [|eauto].
    destruct (Hgood base) as [is Hb]; [constructor|]. specialize (S base). rewrite Hb, Hm in S. exact S.
  - destruct D as [Hb R]. destruct (Hgood t) as [is Ht]; [eapply same_reachable; eassumption|].
    specialize (S t). rewrite Ht, Hb in S. exact S.
  - destruct D as (Hm & R & Hin). eauto.
  - destruct D as (R & es & Hes & Hp).
    set (es0 := es).
    assert (Hsub : forall a b, In (a, b) es -> reachable fs base b /\ In a (imports_of fs b)).
    { intros a b Hab. destruct (Hes a b Hab) as [Rb Ha]. split; [eapply same_reachable; eassumption|eapply same_imports; eassumption]. }
    (* build the full edge list of the reachable import graph of fs from the compiled modules *)
    set (full := flat_map (fun b => map (fun a => (a, b)) (imports_of fs b)) (compiles tr)).
    assert (Hfull : forall a b, In (a, b) full <-> (reachable fs base b /\ In a (imports_of fs b))).
    { intros a b. unfold full. rewrite in_flat_map. split.
      - intros [x [Hx Hab]]. apply in_map_iff in Hab. destruct Hab as [y [E Hy]]. inversion E; subst.
        split; [apply Hcomp; exact Hx|exact Hy].
      - intros [Rb Ha]. exists b. split; [apply Hcomp; exact Rb|]. apply in_map_iff. exists a. auto. }
    apply (Hacyc full Hfull l). eapply path_incl; [|exact Hp]. intros x y Hxy. apply Hfull. apply Hsub. exact Hxy.
  - destruct D as [R Hf].
    assert (R' : reachable fs base l) by (eapply same_reachable; eassumption).
    apply Hcomp in R'. rewrite (load_ok_compiled fs compile_ok topo _ _ _ _ Hok l R') in Hf. discriminate.
Qed.

(** * join: equivalent spellings of a relative path give the same locator *)
Lemma join_app dir a b : join dir (a ++ b) = join (join dir a) b.
Proof. unfold join. apply fold_left_app. Qed.

Theorem join_dot dir a b : join dir (a ++ Dot :: b) = join dir (a ++ b).
Proof. rewrite !join_app. reflexivity. Qed.

Theorem join_name_up dir a d b : join dir (a ++ Name d :: Up :: b) = join dir (a ++ b).
Proof. rewrite !join_app. reflexivity. Qed.
