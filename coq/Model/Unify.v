(** Model of oal-compiler/src/inference/{unify,union}.rs.

    The union-find of union.rs is keyed by whole tags, but [unify] only ever calls
    [union left right] with [left] a reduced tag variable (a root) and [right] a
    reduced tag, so every non-variable key stays a root and the structure is a
    map from variables to tags: a triangular substitution, newest binding first.
    "The representative of the right class takes over" is [v |-> right].
    Recursion in [reduce] and [unify] follows the code and is therefore fuelled;
    [None] / [OutOfFuel] is the model of divergence (stack overflow). *)
From Oal Require Export Tag.

Definition subst := list (N * tag).

Fixpoint lookup (s : subst) (v : N) : option tag :=
  match s with
  | [] => None
  | (w, t) :: s' => if N.eqb v w then Some t else lookup s' v
  end.

(** [occurs] after the fix: descends into function and property tags *)
Fixpoint occurs (v : N) (t : tag) : bool :=
  match t with
  | TVar w => N.eqb v w
  | TFunc bs r => occurs v r || existsb (occurs v) bs
  | TProperty t' => occurs v t'
  | TBase _ => false
  end.

Fixpoint map_opt {A B} (f : A -> option B) (l : list A) : option (list B) :=
  match l with
  | [] => Some []
  | x :: l' => match f x with
               | Some y => match map_opt f l' with Some ys => Some (y :: ys) | None => None end
               | None => None
               end
  end.

(** union::reduce *)
Fixpoint reduce (n : nat) (s : subst) (t : tag) : option tag :=
  match n with
  | O => None
  | S n' =>
      match t with
      | TVar v => match lookup s v with Some t' => reduce n' s t' | None => Some t end
      | TFunc bs r =>
          match map_opt (reduce n' s) bs with
          | Some bs' => match reduce n' s r with Some r' => Some (TFunc bs' r') | None => None end
          | None => None
          end
      | TProperty t' => match reduce n' s t' with Some r => Some (TProperty r) | None => None end
      | TBase _ => Some t
      end
  end.

Inductive uerr := ERecursive | EArity | EMismatch.

Inductive ures :=
| UOk (s : subst)
| UErr (e : uerr)
| UFuel.

(** [occurs] of the pinned tree (before the fix): [Property] is not entered *)
Fixpoint occurs_pinned (v : N) (t : tag) : bool :=
  match t with
  | TVar w => N.eqb v w
  | TFunc bs r => occurs_pinned v r || existsb (occurs_pinned v) bs
  | _ => false
  end.

Section Unify.
Variable occ : N -> tag -> bool.

(** unify::unify *)
Fixpoint unify_gen (n : nat) (s : subst) (l r : tag) : ures :=
  match n with
  | O => UFuel
  | S n' =>
      match reduce n' s l, reduce n' s r with
      | Some l', Some r' =>
          if tag_eqb l' r' then UOk s
          else match l', r' with
               | TVar v, _ => if occ v r' then UErr ERecursive else UOk ((v, r') :: s)
               | _, TVar v => if occ v l' then UErr ERecursive else UOk ((v, l') :: s)
               | TFunc lbs lr, TFunc rbs rr =>
                   if negb (Nat.eqb (length lbs) (length rbs)) then UErr EArity
                   else match unify_gen n' s lr rr with
                        | UOk s1 =>
                            (fix go (s : subst) (ls rs : list tag) : ures :=
                               match ls, rs with
                               | a :: ls', b :: rs' =>
                                   match unify_gen n' s a b with
                                   | UOk s' => go s' ls' rs'
                                   | e => e
                                   end
                               | _, _ => UOk s
                               end) s1 lbs rbs
                        | e => e
                        end
               | TProperty a, TProperty b => unify_gen n' s a b
               | _, _ => UErr EMismatch
               end
      | _, _ => UFuel
      end
  end.

(** InferenceSet::unify: equations in order, the index of the failing one is kept
    (the code attaches that equation's span to the error) *)
Fixpoint unify_all_gen (n : nat) (s : subst) (eqs : list (tag * tag)) (i : N) : ures * N :=
  match eqs with
  | [] => (UOk s, i)
  | (l, r) :: eqs' =>
      match unify_gen n s l r with
      | UOk s' => unify_all_gen n s' eqs' (i + 1)
      | e => (e, i)
      end
  end.
End Unify.

Definition unify := unify_gen occurs.
Definition unify_all := unify_all_gen occurs.
