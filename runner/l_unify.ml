(* layer L4u: the unifier. One line per system:
     E k  l1 r1 ... lk rk         tags in prefix form: B<i> | P t | F n t1..tn r | V i
   output: "ok <maxvar+1 reduced tags separated by ;>"  |  "err <kind> <index>"  | "fuel" *)
open Conv
open Tag
open Unify

let bases = [| BText; BNumber; BStatus; BPrimitive; BRelation; BObject; BContent; BTransfer; BArray; BUri; BAny |]

let base_index b =
  let r = ref 0 in
  Array.iteri (fun i x -> if x = b then r := i) bases;
  !r

let rec parse_tag (ws : string list) : tag * string list =
  match ws with
  | "P" :: rest ->
      let t, rest = parse_tag rest in
      (TProperty t, rest)
  | "F" :: n :: rest ->
      let n = int_of_string n in
      let rec go k acc rest =
        if k = 0 then (Stdlib.List.rev acc, rest)
        else
          let t, rest = parse_tag rest in
          go (k - 1) (t :: acc) rest
      in
      let bs, rest = go n [] rest in
      let r, rest = parse_tag rest in
      (TFunc (bs, r), rest)
  | "V" :: i :: rest -> (TVar (n_of_int (int_of_string i)), rest)
  | w :: rest when String.length w > 1 && w.[0] = 'B' ->
      (TBase bases.(int_of_string (String.sub w 1 (String.length w - 1))), rest)
  | _ -> failwith "bad tag"

let rec show_tag (t : tag) : string =
  match t with
  | TBase b -> "B" ^ string_of_int (base_index b)
  | TProperty t -> "P " ^ show_tag t
  | TFunc (bs, r) ->
      "F " ^ string_of_int (Stdlib.List.length bs) ^ " "
      ^ String.concat "" (Stdlib.List.map (fun b -> show_tag b ^ " ") bs)
      ^ show_tag r
  | TVar v -> "V " ^ string_of_int (int_of_n v)

let rec max_var (t : tag) : int =
  match t with
  | TBase _ -> -1
  | TProperty t -> max_var t
  | TFunc (bs, r) -> Stdlib.List.fold_left (fun a b -> max a (max_var b)) (max_var r) bs
  | TVar v -> int_of_n v

let fuel = nat_of_int 100000

let show_err = function ERecursive -> "recursive" | EArity -> "arity" | EMismatch -> "mismatch"

let run () =
  each_line (fun line ->
      match words line with
      | "E" :: k :: rest ->
          let k = int_of_string k in
          let rec go k acc rest =
            if k = 0 then Stdlib.List.rev acc
            else
              let l, rest = parse_tag rest in
              let r, rest = parse_tag rest in
              go (k - 1) ((l, r) :: acc) rest
          in
          let eqs = go k [] rest in
          let mv = Stdlib.List.fold_left (fun a (l, r) -> max a (max (max_var l) (max_var r))) (-1) eqs in
          (match unify_all fuel [] eqs N0 with
          | UOk s, _ ->
              let outs =
                Stdlib.List.init (mv + 1) (fun i ->
                    match reduce fuel s (TVar (n_of_int i)) with Some t -> show_tag t | None -> "fuel")
              in
              print_endline ("ok " ^ String.concat ";" outs)
          | UErr e, i -> Printf.printf "err %s %d\n" (show_err e) (int_of_n i)
          | UFuel, _ -> print_endline "fuel")
      | _ -> print_endline "?")
