(** Property C17 — go-to-definition and find-references mirror the compiler's binding
    relation. Statements about the handlers' search functions over a resolved folder (any
    number of uses and modules), under the span discipline of the syntax tree ([ordered]:
    uses are disjoint and in document order — C11). That the definitions attached to the
    uses are the lexical binders is C08; the conversion of spans to editor ranges is C16.
    The second half is the folder-level model (Model/Folder.v, run against the real server on
    every check): modules, the node a definition points to, built-in definitions, qualified
    variables. A definition request inside a use bound to a declaration or binding of any
    module answers with that node; on a built-in, or outside every use, with nothing; a
    references request on the identifier of a declaration answers with exactly the uses bound
    to it in every module of the folder; each of them, asked for its definition, goes back to
    that declaration; away from identifiers the answer is empty. *)
From Coq Require Import Lia.
From Oal Require Import Handlers HandlersProofs Folder FolderProofs.

Theorem C17_goto_correct : forall us, ordered us -> forall u idx, In u us -> u_start u <= idx < u_end u ->
  definition_at us idx = u_def u.
Proof. exact goto_correct. Qed.
Print Assumptions C17_goto_correct.

Theorem C17_goto_outside_is_empty : forall us idx,
  (forall u, In u us -> ~ (u_start u <= idx < u_end u)) -> definition_at us idx = None.
Proof. exact goto_outside. Qed.
Print Assumptions C17_goto_outside_is_empty.

Theorem C17_refs_exact : forall us d u, In u (references_of us d) <-> In u us /\ u_def u = Some d.
Proof. exact refs_exact. Qed.
Print Assumptions C17_refs_exact.

Theorem C17_refs_inverse : forall us d, ordered us -> forall u, In u (references_of us d) ->
  definition_at us (u_istart u) = Some d.
Proof. exact refs_inverse. Qed.
Print Assumptions C17_refs_inverse.

Example C17_ordered_inhabited :
  ordered [mk_use 4 9 6 9 (Some 1); mk_use 12 13 12 13 None; mk_use 20 25 20 25 (Some 1)].
Proof. cbn. repeat split; try lia. Qed.

(** folder level *)
Theorem C17_folder_goto_correct : forall f m idx u d i n,
  folder_ok f -> In u (uses_of (mod_at f m)) -> u_start u <= idx < u_end u ->
  u_def u = Some d -> internal f d = false -> locate f d = Some (i, n) ->
  f_goto f m idx = Some (i, n_start n, n_end n).
Proof. exact f_goto_correct. Qed.
Print Assumptions C17_folder_goto_correct.

Theorem C17_folder_goto_builtin_is_empty : forall f m idx u d,
  folder_ok f -> In u (uses_of (mod_at f m)) -> u_start u <= idx < u_end u ->
  u_def u = Some d -> internal f d = true -> f_goto f m idx = None.
Proof. exact f_goto_builtin. Qed.
Print Assumptions C17_folder_goto_builtin_is_empty.

Theorem C17_folder_goto_outside_is_empty : forall f m idx,
  (forall u, In u (uses_of (mod_at f m)) -> ~ (u_start u <= idx < u_end u)) -> f_goto f m idx = None.
Proof. exact f_goto_outside. Qed.
Print Assumptions C17_folder_goto_outside_is_empty.

Theorem C17_folder_references_of_declaration : forall f m idx n,
  In n (fm_nodes (mod_at f m)) -> n_decl n = true -> n_istart n <= idx < n_iend n ->
  (forall n', In n' (fm_nodes (mod_at f m)) -> n_decl n' = true -> n_istart n' <= idx < n_iend n' -> n_id n' = n_id n) ->
  forall i s e, In (i, s, e) (f_references f m idx) <->
    exists fm u, nth_error (f_mods f) i = Some fm /\ In u (uses_of fm) /\ u_def u = Some (n_id n) /\ s = u_istart u /\ e = u_iend u.
Proof. exact f_references_of_declaration. Qed.
Print Assumptions C17_folder_references_of_declaration.

Theorem C17_folder_references_inverse : forall f m idx d md n,
  folder_ok f -> f_find_definition f m idx = Some d -> internal f d = false -> locate f d = Some (md, n) ->
  forall i s e, In (i, s, e) (f_references f m idx) -> f_goto f i s = Some (md, n_start n, n_end n).
Proof. exact f_references_inverse. Qed.
Print Assumptions C17_folder_references_inverse.

Theorem C17_folder_references_from_a_use : forall f m idx v,
  folder_ok f -> In v (fm_uses (mod_at f m)) -> on_ident v idx = true ->
  (forall n, In n (fm_nodes (mod_at f m)) -> n_decl n = true -> ~ (n_istart n <= idx < n_iend n)) ->
  f_find_definition f m idx = u_def (v_use v).
Proof. exact f_find_definition_on_variable. Qed.
Print Assumptions C17_folder_references_from_a_use.

Theorem C17_folder_references_outside_is_empty : forall f m idx,
  (forall n, In n (fm_nodes (mod_at f m)) -> n_decl n = true -> ~ (n_istart n <= idx < n_iend n)) ->
  (forall v, In v (fm_uses (mod_at f m)) -> on_ident v idx = false) ->
  f_references f m idx = [].
Proof. exact f_references_outside. Qed.
Print Assumptions C17_folder_references_outside_is_empty.

Example C17_folder_inhabited : folder_ok ex_folder /\
  f_goto ex_folder 0 43 = Some (1%nat, 0, 15) /\ f_goto ex_folder 0 52 = None /\
  f_references ex_folder 1 5 = [(0%nat, 42, 46); (1%nat, 30, 34)].
Proof. split; [exact ex_folder_ok|]. vm_compute. repeat split. Qed.
