(** Model of oal-compiler/src/module.rs ([load]) and of the path part of
    oal-model/src/locator.rs ([join] on file: URLs).

    Locators are numbers. The file system is a function from locators to
    [Missing] (is_valid = false), [Bad] (present, does not parse) or
    [Good imports] where [imports] are the already-joined targets of the use
    statements in source order. The work list is the code's LIFO [Vec]; the graph is
    the list of nodes in discovery order plus the list of edges (imported, importer).
    petgraph's [toposort] is a parameter [topo] (contract: [topo_spec] in
    Proofs/LoaderProofs.v; an executable instance [topo_kahn] is used by the runner). *)
From Coq Require Export List NArith Bool.
Export ListNotations.

Inductive file := Missing | Bad | Good (imports : list N).

Inductive event := EIsValid (l : N) | ELoad (l : N) | EParse (l : N) | ECompile (l : N).

Inductive lerr :=
| ErrLoad (l : N)                 (* loader.load failed: the base is missing *)
| ErrParse (l : N)                (* loader.parse failed *)
| ErrInvalidModule (target from : N)
| ErrCycle (l : N)
| ErrCompile (l : N).

Record lstate := mk_lstate {
  nodes : list N;          (* newest first *)
  edges : list (N * N);    (* (imported, importer), newest first *)
  queue : list N;          (* head = next to pop *)
  trace : list event       (* newest first *)
}.

Inductive lres :=
| LOk (mods : list N) (tr : list event)
| LErr (e : lerr) (tr : list event)
| LFuel.

Definition mem (x : N) (l : list N) : bool := existsb (N.eqb x) l.

Section Load.
Variable fs : N -> file.
Variable compile_ok : N -> bool.
Variable topo : list N -> list (N * N) -> list N + N.   (* order | a node on a cycle *)

(** phase A of one iteration: every import target is checked with is_valid, in order,
    before anything is loaded; the first invalid one aborts *)
Fixpoint validate (is : list N) (tr : list event) : option N * list event :=
  match is with
  | [] => (None, tr)
  | t :: is' =>
      match fs t with
      | Missing => (Some t, EIsValid t :: tr)
      | _ => validate is' (EIsValid t :: tr)
      end
  end.

(** phase B: known targets only get an edge, new ones are loaded, parsed and queued *)
Fixpoint visit (n : N) (is : list N) (st : lstate) : lstate + (lerr * list event) :=
  match is with
  | [] => inl st
  | t :: is' =>
      if mem t (nodes st) then
        visit n is' (mk_lstate (nodes st) ((t, n) :: edges st) (queue st) (trace st))
      else
        match fs t with
        | Good _ =>
            visit n is' (mk_lstate (t :: nodes st) ((t, n) :: edges st) (t :: queue st)
                                   (EParse t :: ELoad t :: trace st))
        | Bad => inr (ErrParse t, EParse t :: ELoad t :: trace st)
        | Missing => inr (ErrLoad t, ELoad t :: trace st)
        end
  end.

Fixpoint loop (fuel : nat) (st : lstate) : option (lstate + (lerr * list event)) :=
  match fuel with
  | O => None
  | S fuel' =>
      match queue st with
      | [] => Some (inl st)
      | n :: q =>
          match fs n with
          | Good is =>
              match validate is (trace st) with
              | (Some t, tr) => Some (inr (ErrInvalidModule t n, tr))
              | (None, tr) =>
                  match visit n is (mk_lstate (nodes st) (edges st) q tr) with
                  | inl st' => loop fuel' st'
                  | inr e => Some (inr e)
                  end
              end
          | _ => Some (inl st)   (* unreachable: queued modules have been parsed *)
          end
      end
  end.

Fixpoint compile_all (order : list N) (tr : list event) : option lerr * list event :=
  match order with
  | [] => (None, tr)
  | l :: order' =>
      if compile_ok l then compile_all order' (ECompile l :: tr)
      else (Some (ErrCompile l), ECompile l :: tr)
  end.

Definition load (fuel : nat) (base : N) : lres :=
  match fs base with
  | Missing => LErr (ErrLoad base) [ELoad base]
  | Bad => LErr (ErrParse base) [EParse base; ELoad base]
  | Good _ =>
      match loop fuel (mk_lstate [base] [] [base] [EParse base; ELoad base]) with
      | None => LFuel
      | Some (inr (e, tr)) => LErr e tr
      | Some (inl st) =>
          match topo (rev (nodes st)) (rev (edges st)) with
          | inr l => LErr (ErrCycle l) (trace st)
          | inl order =>
              match compile_all order (trace st) with
              | (Some e, tr) => LErr e tr
              | (None, tr) => LOk (nodes st) tr
              end
          end
      end
  end.
End Load.

(** an executable topological sort for the runner (Kahn: repeatedly take, in node
    order, a node none of whose remaining predecessors is pending) *)
Definition has_pending_pred (pending : list N) (es : list (N * N)) (n : N) : bool :=
  existsb (fun e => N.eqb (snd e) n && mem (fst e) pending) es.

Fixpoint kahn (fuel : nat) (pending : list N) (es : list (N * N)) (acc : list N) : list N + N :=
  match fuel with
  | O => match pending with n :: _ => inr n | [] => inl (rev acc) end
  | S fuel' =>
      match pending with
      | [] => inl (rev acc)
      | _ =>
          match find (fun n => negb (has_pending_pred pending es n)) pending with
          | Some n => kahn fuel' (filter (fun x => negb (N.eqb x n)) pending) es (n :: acc)
          | None => match pending with n :: _ => inr n | [] => inl (rev acc) end
          end
      end
  end.

Definition topo_kahn (ns : list N) (es : list (N * N)) : list N + N :=
  kahn (length ns) ns es [].

(** * Locator::join on file: URLs, path part.
    A path is a list of segments; the last segment of a locator is its file name.
    A relative reference is a list of [Dot], [Up] and named segments (RFC 3986
    5.2.4 remove_dot_segments applied to merge(base, ref)). *)
Inductive seg := Dot | Up | Name (s : N).

Definition push_seg (dir : list N) (s : seg) : list N :=   (* dir: innermost first *)
  match s with
  | Dot => dir
  | Up => tl dir
  | Name x => x :: dir
  end.

(** [join base rel]: [base] is the directory of the importing file (innermost
    first); the result is the full path of the target, innermost (file name) first *)
Definition join (dir : list N) (rel : list seg) : list N := fold_left push_seg rel dir.
