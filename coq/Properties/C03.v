(** Property C03 — every emitted document is a closed, structurally valid OpenAPI 3
    description. Statements only; proofs in Proofs/SpecUriProofs.v.

    Proved here, for every URI / status (no size bound): path variables and required path
    parameters correspond one to one and in order; every response key is default, a code
    100-599 or 1XX-5XX; operationId uniqueness is refuted on the faithful model (K6).
    $ref closure is a property of the evaluator's reference table and is stated with the
    evaluator model (C09/C01 files); the YAML re-parse clause is checked on the
    implementation only. *)
From Oal Require Import SpecUri SpecUriProofs.

Theorem C03_path_params_match : forall segs,
  forallb wf_seg segs = true -> braces (pattern segs) None = path_params segs.
Proof. exact path_params_match. Qed.
Print Assumptions C03_path_params_match.

Theorem C03_number_status_valid : forall v s,
  status_of_number v = Some s -> valid_key (response_key (Some s)) = true.
Proof. exact number_status_valid. Qed.
Print Assumptions C03_number_status_valid.

Theorem C03_literal_status_valid : forall c s,
  status_of_literal c = Some s -> valid_key (response_key (Some s)) = true.
Proof. exact literal_status_valid. Qed.
Print Assumptions C03_literal_status_valid.

Theorem C03_default_key_valid : valid_key (response_key None) = true.
Proof. exact default_key_valid. Qed.
Print Assumptions C03_default_key_valid.

Theorem C03_out_of_range_rejected : forall v, v < 100 \/ 599 < v -> status_of_number v = None.
Proof. exact out_of_range_rejected. Qed.
Print Assumptions C03_out_of_range_rejected.

Theorem C03_operation_ids_refuted :
  exists m p q, pattern p <> pattern q /\ xfer_id m p = xfer_id m q.
Proof. exact operation_ids_refuted. Qed.
Print Assumptions C03_operation_ids_refuted.

Example C03_wf_inhabited :
  forallb wf_seg [SLit [97]; SVar [105; 100]; SLit []; SVar [110]] = true.
Proof. reflexivity. Qed.
