From Oal Require Import Tag.
Theorem C11_placeholder : True. Proof. exact I. Qed.
Print Assumptions C11_placeholder.
