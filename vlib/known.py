"""Class predicates of the known findings of the evaluator (C01/C04), keyed by
(cast site, offending value form) as read from the panic message."""
import re

CLASSES = [
    ("K1", re.compile(r"not a content: Ranges")),
    ("K2", re.compile(r"not a schema: (Content|Ranges|Transfer|Property|String|Number|HttpStatus|Lambda)")),
    ("K10", re.compile(r"not an object: Recursion")),
    ("K11", re.compile(r"not an object: VariadicOp")),
    ("K12", re.compile(r"not a (uri|relation): VariadicOp")),
    ("K16", re.compile(r"not a relation: Recursion")),
]


REFDECL = re.compile(r"^\s*let\s+(@[A-Za-z0-9_$-]+)", re.M)


def conflated_reference(mods):
    """K21: the same @name is declared in two modules of the set"""
    seen = {}
    for loc, text in mods.items():
        for n in set(REFDECL.findall(text)):
            if n in seen and seen[n] != loc:
                return True
            seen[n] = loc
    return False


def classify_panic(msg, mods):
    """returns the known-finding id whose class the panic belongs to, or None"""
    msg = msg or ""
    if re.search(r"not an? [a-zA-Z ]+:", msg) and conflated_reference(mods):
        return "K21"
    for kid, pat in CLASSES:
        if pat.search(msg):
            if kid == "K2" and len(mods) < 2:
                continue      # K2 needs an imported generic function
            return kid
    return None
