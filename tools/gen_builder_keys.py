# regenerates coq/Model/BuilderKeys.v (text constants as code point lists); see the list in the file itself
