(** Inlining a plain declaration is free (C05, evaluator stage): replacing every use of a
    declaration [let x = e0;] (no parameters, no annotations of its own, not an @reference, not
    flagged recursive) by [e0] itself, in a whole program and in the evaluated expression, does
    not change the result of the evaluator model: same value, same reference table, same error
    or panic, for the code's semantics and for the lexical one. Read from right to left this is
    naming a sub-expression with let. Hence a program and the program with the declaration
    inlined evaluate alike whenever both evaluations end, and the one with the declaration ends
    whenever the inlined one does, with twice the fuel plus one.
    The one fact about annotations this rests on: extending the empty annotation by [a] gives
    [a] back when the keys of [a] are distinct, and every annotation the evaluator passes down
    has distinct keys (it starts empty and is only ever extended). *)
From Oal Require Import Eval FuelProofs ParenProofs.
From Coq Require Import Lia.
Local Open Scope N_scope.

(** * annotations passed down have distinct keys *)
Definition nd (a : ymap) : Prop := NoDup (map fst a).

Lemma NoDup_snoc {A} (l : list A) x : NoDup l -> ~ In x l -> NoDup (l ++ [x]).
Proof.
  induction l as [|y l IH]; intros Hn Hx; cbn [app]; [constructor; [intros []|constructor]|].
  inversion Hn as [|? ? Hy Hl]; subst. constructor.
  - intros Hin. apply in_app_or in Hin as [Hin|[<-|[]]]; [exact (Hy Hin)|]. apply Hx. left. reflexivity.
  - apply IH; [exact Hl|]. intros Hin. apply Hx. right. exact Hin.
Qed.

Lemma ext_upd_absent k v a : ~ In k (map fst a) -> ext_upd k v a = a ++ [(k, v)].
Proof.
  induction a as [|[k' pv] a IH]; intros H; cbn [ext_upd app]; [reflexivity|].
  destruct (N.eqb_spec k k') as [->|Hne]; [exfalso; apply H; left; reflexivity|].
  rewrite IH; [reflexivity|]. intros Hin. apply H. right. exact Hin.
Qed.

Lemma ext_upd_keys_present k v a : In k (map fst a) -> map fst (ext_upd k v a) = map fst a.
Proof.
  induction a as [|[k' pv] a IH]; intros H; [destruct H|]. cbn [ext_upd].
  destruct (N.eqb_spec k k') as [->|Hne]; [reflexivity|]. cbn [map fst]. f_equal. apply IH.
  destruct H as [H|H]; [cbn in H; congruence|exact H].
Qed.

Lemma ext_upd_nd k v a : nd a -> nd (ext_upd k v a).
Proof.
  unfold nd. intros H. destruct (in_dec N.eq_dec k (map fst a)) as [Hin|Hnin].
  - rewrite ext_upd_keys_present; assumption.
  - rewrite ext_upd_absent by exact Hnin. rewrite map_app. cbn [map fst]. apply NoDup_snoc; assumption.
Qed.

Lemma extend_nd b : forall a, nd a -> nd (extend a b).
Proof. induction b as [|[k v] b IH]; intros a H; cbn [extend]; [exact H|]. apply IH, ext_upd_nd, H. Qed.

Lemma extend_app b : forall a, nd (a ++ b) -> extend a b = a ++ b.
Proof.
  induction b as [|[k v] b IH]; intros a H; cbn [extend]; [rewrite app_nil_r; reflexivity|].
  assert (Hk : ~ In k (map fst a)).
  { unfold nd in H. rewrite map_app in H. cbn [map fst] in H. intros Hin.
    apply NoDup_remove_2 in H. apply H. apply in_or_app. left. exact Hin. }
  rewrite ext_upd_absent by exact Hk. rewrite IH; rewrite <- app_assoc; [reflexivity|exact H].
Qed.

Lemma extend_nil a : nd a -> extend [] a = a.
Proof. intros H. apply (extend_app a []). exact H. Qed.

Lemma compose_nd anns : forall acc r, nd acc -> compose anns acc = Ok r -> nd r.
Proof.
  induction anns as [|[a|] anns IH]; intros acc r H E; cbn [compose] in E; [injection E as <-; exact H| |discriminate E].
  apply (IH _ _ (extend_nd a acc H) E).
Qed.

Lemma nd_nil : nd [].
Proof. constructor. Qed.

(** * the inlining function *)
Section Inline.
  Variables m0 k0 : N.        (* the declaration [k0] of module [m0] ... *)
  Variable e0u : expr.        (* ... and its right-hand side, itself inlined *)

  Fixpoint unname (e : expr) : expr :=
    match e with
    | ETerm anns e' => ETerm anns (unname e')
    | ESub e' => ESub (unname e')
    | EPrim p => EPrim p
    | ELitStr x => ELitStr x
    | ELitNum x => ELitNum x
    | ELitStat x => ELitStat x
    | EDecl m i => if N.eqb m m0 && N.eqb i k0 then e0u else EDecl m i
    | EConcat => EConcat
    | EBind x => EBind x
    | EApp f args => EApp (unname f) (map unname args)
    | ERec m i x e' => ERec m i x (unname e')
    | EObj ps => EObj (map unname ps)
    | EProp name req e' => EProp name req (unname e')
    | EUnary b e' => EUnary b (unname e')
    | EArr e' => EArr (unname e')
    | EOp op es => EOp op (map unname es)
    | ECont body metas =>
        ECont (option_map unname body) (map (fun ke => match ke with (k, e') => (k, unname e') end) metas)
    | EXfer ms dom rg prm => EXfer ms (option_map unname dom) (unname rg) (option_map unname prm)
    | EUri segs prm =>
        EUri (map (fun sg => match sg with inl x => inl x | inr e' => inr (unname e') end) segs) (option_map unname prm)
    | ERel u xs => ERel (unname u) (map unname xs)
    end.

  Definition unname_decl (d : decl) : decl := mk_decl (d_ref d) (d_rec d) (d_anns d) (d_params d) (unname (d_rhs d)).
  Definition unname_prog (P : prog) : prog := map (map unname_decl) P.

  Lemma get_decl_unname P m i : get_decl (unname_prog P) m i = option_map unname_decl (get_decl P m i).
  Proof.
    unfold get_decl, unname_prog. rewrite nth_error_map. destruct (nth_error P (N.to_nat m)) as [ds|]; cbn [option_map]; [|reflexivity].
    rewrite nth_error_map. reflexivity.
  Qed.

  Variable lx : bool.
  Variable P : prog.
  Variable d0 : decl.
  Hypothesis Hd0 : get_decl P m0 k0 = Some d0.
  Hypothesis Hplain : d_ref d0 = None /\ d_rec d0 = false /\ d_anns d0 = [] /\ d_params d0 = [].
  Hypothesis He0u : unname (d_rhs d0) = e0u.
  Notation P' := (unname_prog P).

  Theorem eval_inline : forall n s e a, nd a -> lef (eval lx P n s e a) (eval lx P' n s (unname e) a).
  Proof.
    induction n as [|n IH]; intros s e a Ha; [left; reflexivity|].
    set (EV := fun s e => eval lx P n s e []) in *.
    set (EV' := fun s e => eval lx P' n s (unname e) []) in *.
    assert (IH0 : forall s e, lef (EV s e) (EV' s e)) by (intros; apply IH, nd_nil).
    destruct e; cbn [eval unname]; fold EV.
    - (* ETerm *) destruct (compose anns []) as [x| | |] eqn:Ec; cbn [bind]; try apply lef_refl.
      apply IH. apply extend_nd, Ha.
    - (* ESub *) apply IH, Ha.
    - apply lef_refl.
    - apply lef_refl.
    - apply lef_refl.
    - apply lef_refl.
    - (* EDecl *)
      destruct (N.eqb m m0 && N.eqb i k0) eqn:Eq.
      + apply andb_prop in Eq as [Em Ei]. apply N.eqb_eq in Em, Ei. subst m i. rewrite Hd0.
        destruct Hplain as (Hr & Hc & Han & Hp). rewrite Hp, Han. cbn [compose bind]. rewrite Hr, Hc. cbn [orb].
        rewrite (extend_nil a Ha). rewrite <- He0u.
        eapply lef_trans; [apply IH, Ha|apply eval_fuel_step].
      + cbn [eval]. rewrite get_decl_unname. destruct (get_decl P m i) as [d|]; cbn [option_map]; [|apply lef_refl].
        cbn [unname_decl d_params d_anns d_ref d_rec d_rhs].
        destruct (d_params d); [|apply lef_refl].
        destruct (compose (d_anns d) []) as [da| | |] eqn:Ec; cbn [bind]; try apply lef_refl.
        assert (Hda : nd (extend da a)) by (apply extend_nd, (compose_nd _ _ _ nd_nil Ec)).
        destruct ((match d_ref d with Some _ => true | None => false end) || d_rec d); [|apply IH, Hda].
        destruct (rget _ (refs s)) as [[v|]|]; try apply lef_refl.
        apply bind_lef; [apply IH, Hda|]. intros [s2 v]. apply lef_refl.
    - apply lef_refl.
    - apply lef_refl.
    - (* EApp *)
      apply bind_lef; [apply IH, nd_nil|]. intros [s1 fv]. apply pure_lef. intros lam.
      destruct lam; try (rewrite map_st_map; apply bind_lef; [apply (map_st_lef EV EV' IH0)|]; intros [s2 vs]; apply lef_refl).
      rewrite get_decl_unname. destruct (get_decl P m i) as [d|]; cbn [option_map]; [|apply lef_refl].
      cbn [unname_decl d_params d_anns d_ref d_rec d_rhs]. rewrite bind_args_map.
      apply bind_lef; [apply (bind_args_lef EV EV' IH0)|]. intros [s2 sc].
      destruct (compose (d_anns d) []) as [da| | |] eqn:Ec; cbn [bind]; try apply lef_refl.
      assert (Hda : nd (extend da a)) by (apply extend_nd, (compose_nd _ _ _ nd_nil Ec)).
      rewrite map_length. destruct lx.
      + destruct (Nat.ltb _ _); [apply lef_refl|]. apply bind_lef; [apply IH, Hda|]. intros [s3 r]. apply lef_refl.
      + apply bind_lef; [apply IH, Hda|]. intros [s3 r]. apply lef_refl.
    - (* ERec *)
      apply bind_lef; [apply IH, Ha|]. intros [s1 rhs]. apply lef_refl.
    - (* EObj *)
      rewrite map_st_map.
      apply bind_lef; [apply map_st_lef; intros s0 x; apply (step_lef EV EV' IH0)|]. intros [s1 props]. apply lef_refl.
    - apply bind_lef; [apply IH0|]. intros [s1 v]. apply lef_refl.
    - apply bind_lef; [apply IH0|]. intros [s1 v]. apply lef_refl.
    - apply bind_lef; [apply IH0|]. intros [s1 v]. apply lef_refl.
    - (* EOp *)
      destruct (N.eqb op 3).
      + rewrite map_st_map.
        apply bind_lef; [apply map_st_lef; intros s0 x; apply (step_lef EV EV' IH0)|]. intros [s1 rs]. apply lef_refl.
      + destruct (vop_of op) as [vo|]; [|apply lef_refl]. rewrite map_st_map.
        apply bind_lef; [apply map_st_lef; intros s0 x; apply (step_lef EV EV' IH0)|]. intros [s1 rs]. apply lef_refl.
    - (* ECont *)
      rewrite opt_st_map.
      apply bind_lef; [apply opt_st_lef; intros s0 x; apply (step_lef EV EV' IH0)|]. intros [s1 schema].
      rewrite eval_metas_map.
      apply bind_lef; [apply (eval_metas_lef EV EV' IH0)|]. intros [s2 [[status media] headers]]. apply lef_refl.
    - (* EXfer *)
      rewrite opt_st_map.
      apply bind_lef; [apply opt_st_lef; intros s0 x; apply (step_lef EV EV' IH0)|]. intros [s1 dom].
      apply bind_lef; [apply IH0|]. intros [s2 rv]. apply pure_lef. intros rg. rewrite opt_st_map.
      apply bind_lef; [apply opt_st_lef; intros s0 x; apply (step_lef EV EV' IH0)|]. intros [s3 prm]. apply lef_refl.
    - (* EUri *)
      rewrite map_st_map.
      apply bind_lef.
      + apply map_st_lef. intros s0 [x|v]; [apply lef_refl|]. apply bind_lef; [apply IH0|]. intros [s1 pv]. apply lef_refl.
      + intros [s1 path]. rewrite opt_st_map. apply bind_lef; [apply opt_st_lef; intros s0 x; apply (step_lef EV EV' IH0)|]. intros [s2 prm]. apply lef_refl.
    - (* ERel *)
      apply bind_lef; [apply IH0|]. intros [s1 uv]. apply pure_lef. intros ur.
      rewrite map_st_map.
      apply bind_lef; [apply map_st_lef; intros s0 x; apply (step_lef EV EV' IH0)|]. intros [s2 ts]. apply lef_refl.
  Qed.

  Theorem eval_program_inline n rs : lef (eval_program lx P n rs) (eval_program lx P' n (map unname rs)).
  Proof.
    unfold eval_program. rewrite map_st_map. apply bind_lef.
    - apply map_st_lef. intros s x. apply bind_lef; [apply eval_inline, nd_nil|]. intros [s1 v]. apply lef_refl.
    - intros [s1 rels]. apply lef_refl.
  Qed.

  (** ** the converse: the program with the declaration ends whenever the inlined one does *)
  Definition lead (e : expr) : nat := match e with EDecl m i => if N.eqb m m0 && N.eqb i k0 then 1 else 0 | _ => 0 end.
  Hypothesis Hnoself : lead (d_rhs d0) = 0%nat.

  Theorem eval_uninline : forall n s e a, nd a ->
    lef (eval lx P' n s (unname e) a) (eval lx P (n * 2 + lead e) s e a).
  Proof.
    induction n as [|n IH]; intros s e a Ha; [left; reflexivity|].
    assert (IHa : forall s e a, nd a -> lef (eval lx P' n s (unname e) a) (eval lx P (n * 2 + 1) s e a)).
    { intros s0 e1 a0 H0. eapply lef_more; [apply IH, H0|]. unfold lead. destruct e1; try lia. destruct (N.eqb m m0 && N.eqb i k0); lia. }
    set (EV := fun s e => eval lx P' n s (unname e) []) in *.
    set (EV' := fun s e => eval lx P (n * 2 + 1) s e []) in *.
    assert (IH0 : forall s e, lef (EV s e) (EV' s e)) by (intros; apply IHa, nd_nil).
    assert (H0 : forall s e a, nd a -> lead e = 0%nat -> lef (eval lx P' (S n) s (unname e) a) (eval lx P (S (n * 2 + 1)) s e a)).
    { clear s e a Ha. intros s e a Ha Hl.
      destruct e; try discriminate Hl; cbn [eval unname]; fold EV'.
      - (* ETerm *) destruct (compose anns []) as [x| | |] eqn:Ec; cbn [bind]; try apply lef_refl.
        apply IHa. apply extend_nd, Ha.
      - (* ESub *) apply IHa, Ha.
      - apply lef_refl.
      - apply lef_refl.
      - apply lef_refl.
      - apply lef_refl.
      - (* EDecl *)
        destruct (N.eqb m m0 && N.eqb i k0) eqn:Eq.
        + cbn [lead] in Hl. rewrite Eq in Hl. discriminate Hl.
        + cbn [eval]. rewrite get_decl_unname. destruct (get_decl P m i) as [d|]; cbn [option_map]; [|apply lef_refl].
          cbn [unname_decl d_params d_anns d_ref d_rec d_rhs].
          destruct (d_params d); [|apply lef_refl].
          destruct (compose (d_anns d) []) as [da| | |] eqn:Ec; cbn [bind]; try apply lef_refl.
          assert (Hda : nd (extend da a)) by (apply extend_nd, (compose_nd _ _ _ nd_nil Ec)).
          destruct ((match d_ref d with Some _ => true | None => false end) || d_rec d); [|apply IHa, Hda].
          destruct (rget _ (refs s)) as [[v|]|]; try apply lef_refl.
          apply bind_lef; [apply IHa, Hda|]. intros [s2 v]. apply lef_refl.
      - apply lef_refl.
      - apply lef_refl.
      - (* EApp *)
        apply bind_lef; [apply IHa, nd_nil|]. intros [s1 fv]. apply pure_lef. intros lam.
        destruct lam; try (rewrite map_st_map; apply bind_lef; [apply (map_st_lef EV EV' IH0)|]; intros [s2 vs]; apply lef_refl).
        rewrite get_decl_unname. destruct (get_decl P m i) as [d|]; cbn [option_map]; [|apply lef_refl].
        cbn [unname_decl d_params d_anns d_ref d_rec d_rhs]. rewrite bind_args_map.
        apply bind_lef; [apply (bind_args_lef EV EV' IH0)|]. intros [s2 sc].
        destruct (compose (d_anns d) []) as [da| | |] eqn:Ec; cbn [bind]; try apply lef_refl.
        assert (Hda : nd (extend da a)) by (apply extend_nd, (compose_nd _ _ _ nd_nil Ec)).
        rewrite map_length. destruct lx.
        + destruct (Nat.ltb _ _); [apply lef_refl|]. apply bind_lef; [apply IHa, Hda|]. intros [s3 r]. apply lef_refl.
        + apply bind_lef; [apply IHa, Hda|]. intros [s3 r]. apply lef_refl.
      - (* ERec *)
        apply bind_lef; [apply IHa, Ha|]. intros [s1 rhs]. apply lef_refl.
      - (* EObj *)
        rewrite map_st_map.
        apply bind_lef; [apply map_st_lef; intros s0 x; apply (step_lef EV EV' IH0)|]. intros [s1 props]. apply lef_refl.
      - apply bind_lef; [apply IH0|]. intros [s1 v]. apply lef_refl.
      - apply bind_lef; [apply IH0|]. intros [s1 v]. apply lef_refl.
      - apply bind_lef; [apply IH0|]. intros [s1 v]. apply lef_refl.
      - (* EOp *)
        destruct (N.eqb op 3).
        + rewrite map_st_map.
          apply bind_lef; [apply map_st_lef; intros s0 x; apply (step_lef EV EV' IH0)|]. intros [s1 rs]. apply lef_refl.
        + destruct (vop_of op) as [vo|]; [|apply lef_refl]. rewrite map_st_map.
          apply bind_lef; [apply map_st_lef; intros s0 x; apply (step_lef EV EV' IH0)|]. intros [s1 rs]. apply lef_refl.
      - (* ECont *)
        rewrite opt_st_map.
        apply bind_lef; [apply opt_st_lef; intros s0 x; apply (step_lef EV EV' IH0)|]. intros [s1 schema].
        rewrite eval_metas_map.
        apply bind_lef; [apply (eval_metas_lef EV EV' IH0)|]. intros [s2 [[status media] headers]]. apply lef_refl.
      - (* EXfer *)
        rewrite opt_st_map.
        apply bind_lef; [apply opt_st_lef; intros s0 x; apply (step_lef EV EV' IH0)|]. intros [s1 dom].
        apply bind_lef; [apply IH0|]. intros [s2 rv]. apply pure_lef. intros rg. rewrite opt_st_map.
        apply bind_lef; [apply opt_st_lef; intros s0 x; apply (step_lef EV EV' IH0)|]. intros [s3 prm]. apply lef_refl.
      - (* EUri *)
        rewrite map_st_map.
        apply bind_lef.
        + apply map_st_lef. intros s0 [x|v]; [apply lef_refl|]. apply bind_lef; [apply IH0|]. intros [s1 pv]. apply lef_refl.
        + intros [s1 path]. rewrite opt_st_map. apply bind_lef; [apply opt_st_lef; intros s0 x; apply (step_lef EV EV' IH0)|]. intros [s2 prm]. apply lef_refl.
      - (* ERel *)
        apply bind_lef; [apply IH0|]. intros [s1 uv]. apply pure_lef. intros ur.
        rewrite map_st_map.
        apply bind_lef; [apply map_st_lef; intros s0 x; apply (step_lef EV EV' IH0)|]. intros [s2 ts]. apply lef_refl.
    }
    destruct (lead e) eqn:El.
    - replace (S n * 2 + 0)%nat with (S (n * 2 + 1)) by lia. apply H0; assumption.
    - destruct e; try discriminate El. cbn [lead] in El. destruct (N.eqb m m0 && N.eqb i k0) eqn:Eq; [|discriminate El].
      injection El as <-. cbn [unname]. rewrite Eq.
      apply andb_prop in Eq as [Em Ei]. apply N.eqb_eq in Em, Ei. subst m i.
      replace (S n * 2 + 1)%nat with (S (S (n * 2 + 1))) by lia. cbn [eval]. rewrite Hd0.
      destruct Hplain as (Hr & Hc & Han & Hp). rewrite Hp, Han. cbn [compose bind]. rewrite Hr, Hc. cbn [orb].
      rewrite (extend_nil a Ha). rewrite <- He0u. apply H0; [exact Ha|exact Hnoself].
  Qed.

  Theorem eval_program_uninline n rs : lef (eval_program lx P' n (map unname rs)) (eval_program lx P (n * 2 + 1) rs).
  Proof.
    unfold eval_program. rewrite map_st_map. apply bind_lef.
    - apply map_st_lef. intros s x. apply bind_lef; [|intros [s1 v]; apply lef_refl].
      eapply lef_more; [apply eval_uninline, nd_nil|]. unfold lead. destruct x; try lia. destruct (N.eqb m m0 && N.eqb i k0); lia.
    - intros [s1 rels]. apply lef_refl.
  Qed.
End Inline.

(** * a declaration that does not mention itself *)
Section Occ.
  Variables m0 k0 : N.
  Fixpoint occ (e : expr) : bool :=
    match e with
    | ETerm _ e' | ESub e' | EProp _ _ e' | EUnary _ e' | EArr e' | ERec _ _ _ e' => occ e'
    | EDecl m i => N.eqb m m0 && N.eqb i k0
    | EApp f args => occ f || existsb occ args
    | EObj ps => existsb occ ps
    | EOp _ es => existsb occ es
    | ECont body metas => match body with Some b => occ b | None => false end || existsb (fun ke : N * expr => occ (snd ke)) metas
    | EXfer _ dom rg prm =>
        match dom with Some b => occ b | None => false end || occ rg || match prm with Some b => occ b | None => false end
    | EUri segs prm =>
        existsb (fun sg : str + expr => match sg with inl _ => false | inr e' => occ e' end) segs || match prm with Some b => occ b | None => false end
    | ERel u xs => occ u || existsb occ xs
    | _ => false
    end.

  Variable e0u : expr.
  Notation un := (unname m0 k0 e0u).

  Lemma map_id_in {A} (f : A -> A) l : (forall x, In x l -> f x = x) -> map f l = l.
  Proof. induction l as [|x l IH]; intros H; cbn [map]; [reflexivity|]. rewrite (H x (or_introl eq_refl)), IH; [reflexivity|]. intros y Hy. apply H. right. exact Hy. Qed.

  Lemma existsb_false_in {A} (f : A -> bool) l x : existsb f l = false -> In x l -> f x = false.
  Proof.
    intros H Hin. destruct (f x) eqn:E; [|reflexivity]. assert (existsb f l = true) by (apply existsb_exists; exists x; split; assumption). congruence.
  Qed.

  Lemma unname_id : forall e, occ e = false -> un e = e.
  Proof.
    fix IH 1. intros e H. destruct e; cbn [occ] in H; cbn [unname]; try reflexivity;
      try (rewrite (IH e H); reflexivity).
    - rewrite H. reflexivity.
    - apply orb_false_elim in H as [Hf Ha]. rewrite (IH e Hf). f_equal.
      induction args as [|x args IHa]; [reflexivity|]. cbn [existsb] in Ha. apply orb_false_elim in Ha as [Hx Hr].
      cbn [map]. rewrite (IH x Hx), (IHa Hr). reflexivity.
    - f_equal. induction ps as [|x ps IHp]; [reflexivity|]. cbn [existsb] in H. apply orb_false_elim in H as [Hx Hr].
      cbn [map]. rewrite (IH x Hx), (IHp Hr). reflexivity.
    - f_equal. induction es as [|x es IHe]; [reflexivity|]. cbn [existsb] in H. apply orb_false_elim in H as [Hx Hr].
      cbn [map]. rewrite (IH x Hx), (IHe Hr). reflexivity.
    - apply orb_false_elim in H as [Hb Hm]. f_equal.
      + destruct body as [b|]; [cbn [option_map]; rewrite (IH b Hb); reflexivity|reflexivity].
      + induction metas as [|[k x] metas IHm]; [reflexivity|]. cbn [existsb snd] in Hm. apply orb_false_elim in Hm as [Hx Hr].
        cbn [map]. rewrite (IH x Hx), (IHm Hr). reflexivity.
    - apply orb_false_elim in H as [H Hp]. apply orb_false_elim in H as [Hd Hr]. f_equal.
      + destruct domain as [b|]; [cbn [option_map]; rewrite (IH b Hd); reflexivity|reflexivity].
      + apply IH, Hr.
      + destruct params as [b|]; [cbn [option_map]; rewrite (IH b Hp); reflexivity|reflexivity].
    - apply orb_false_elim in H as [Hs Hp]. f_equal.
      + induction segs as [|[x|x] segs IHs]; [reflexivity| |]; cbn [existsb] in Hs.
        * cbn [orb] in Hs. cbn [map]. rewrite (IHs Hs). reflexivity.
        * apply orb_false_elim in Hs as [Hx Hr]. cbn [map]. rewrite (IH x Hx), (IHs Hr). reflexivity.
      + destruct params as [b|]; [cbn [option_map]; rewrite (IH b Hp); reflexivity|reflexivity].
    - apply orb_false_elim in H as [Hu Hx]. rewrite (IH e Hu). f_equal.
      induction xfers as [|x xfers IHx]; [reflexivity|]. cbn [existsb] in Hx. apply orb_false_elim in Hx as [Hx0 Hr].
      cbn [map]. rewrite (IH x Hx0), (IHx Hr). reflexivity.
  Qed.
End Occ.

(** * inlining a plain declaration at all its uses (read backwards: naming with let) *)
Definition plain (d : decl) : Prop := d_ref d = None /\ d_rec d = false /\ d_anns d = [] /\ d_params d = [].

Section Free.
  Variable lx : bool.
  Variable P : prog.
  Variables m0 k0 : N.
  Variable d0 : decl.
  Hypothesis Hd0 : get_decl P m0 k0 = Some d0.
  Hypothesis Hplain : plain d0.
  Hypothesis Hocc : occ m0 k0 (d_rhs d0) = false.

  Definition inline_prog : prog := unname_prog m0 k0 (d_rhs d0) P.
  Definition inline_expr : expr -> expr := unname m0 k0 (d_rhs d0).

  Lemma lead0 : lead m0 k0 (d_rhs d0) = 0%nat.
  Proof. unfold lead. destruct (d_rhs d0); try reflexivity. cbn [occ] in Hocc. rewrite Hocc. reflexivity. Qed.

  Theorem inline_keeps_result n rs r :
    eval_program lx P n rs = r -> r <> Fuel -> eval_program lx inline_prog n (map inline_expr rs) = r.
  Proof.
    intros H Hr. unfold inline_prog, inline_expr.
    destruct (eval_program_inline m0 k0 (d_rhs d0) lx P d0 Hd0 Hplain (unname_id m0 k0 (d_rhs d0) (d_rhs d0) Hocc) n rs) as [E|E]; congruence.
  Qed.

  Theorem naming_keeps_result n rs r :
    eval_program lx inline_prog n (map inline_expr rs) = r -> r <> Fuel -> eval_program lx P (n * 2 + 1) rs = r.
  Proof.
    intros H Hr. unfold inline_prog, inline_expr in H.
    destruct (eval_program_uninline m0 k0 (d_rhs d0) lx P d0 Hd0 Hplain (unname_id m0 k0 (d_rhs d0) (d_rhs d0) Hocc) lead0 n rs) as [E|E]; congruence.
  Qed.

  Theorem inlining_is_free n1 n2 rs :
    eval_program lx P n1 rs <> Fuel -> eval_program lx inline_prog n2 (map inline_expr rs) <> Fuel ->
    eval_program lx P n1 rs = eval_program lx inline_prog n2 (map inline_expr rs).
  Proof.
    intros H1 H2. pose proof (inline_keeps_result n1 rs _ eq_refl H1) as E.
    destruct (Nat.le_ge_cases n1 n2) as [Hle|Hle].
    - rewrite <- E. symmetry. apply (eval_program_fuel_mono lx inline_prog n1 n2); [reflexivity| |exact Hle]. rewrite E. exact H1.
    - rewrite <- E. apply (eval_program_fuel_mono lx inline_prog n2 n1); [reflexivity|exact H2|exact Hle].
  Qed.
End Free.

(** non-vacuity: [let t = { 'p num }; let f x = { 'q x, 'r t }; res /a on get -> <f t>;] and the
    program with [t] inlined differ and evaluate to the same document *)
Example ex_inl_P : prog :=
  [[ mk_decl None false [] [] (EObj [EProp 20 None (ETerm [] (EPrim 2))]);
     mk_decl None false [] [7] (EObj [EProp 21 None (ETerm [] (EBind 7)); EProp 22 None (ETerm [] (EDecl 0 0))]) ]].
Example ex_inl_rs : list expr :=
  [ERel (ETerm [] (EUri [inl 30] None))
        [EXfer [0] None (ECont (Some (EApp (EDecl 0 1) [ETerm [] (EDecl 0 0)])) []) None]].
Example ex_inlining :
  plain (mk_decl None false [] [] (EObj [EProp 20 None (ETerm [] (EPrim 2))])) /\
  inline_prog ex_inl_P 0 0 (mk_decl None false [] [] (EObj [EProp 20 None (ETerm [] (EPrim 2))])) <> ex_inl_P /\
  exists r, eval_program false ex_inl_P 50 ex_inl_rs = Ok r /\
            eval_program false (inline_prog ex_inl_P 0 0 (mk_decl None false [] [] (EObj [EProp 20 None (ETerm [] (EPrim 2))]))) 50
                         (map (inline_expr 0 0 (mk_decl None false [] [] (EObj [EProp 20 None (ETerm [] (EPrim 2))]))) ex_inl_rs) = Ok r.
Proof. split; [repeat split|]. split; [discriminate|]. eexists. split; vm_compute; reflexivity. Qed.
