(** Rewrite invariance at the level of name resolution (property C05): parenthesising and
    consistent (injective) renaming of identifiers leave the binding relation unchanged. *)
From Oal Require Import Resolve ResolveProofs.

(** a parenthesised expression is a node with one child *)
Theorem paren_resolution en t : lex en (RNode [t]) = lex en t.
Proof. cbn [lex seq_results]. destruct (lex en t) as [ds|e]; [rewrite app_nil_r|]; reflexivity. Qed.

Section Alpha.
Variable f : N -> N.
Hypothesis f_inj : forall a b, f a = f b -> a = b.

Definition ren_entry (e : entry) : entry := (f (fst e), option_map f (snd e)).
Definition ren_scope (s : scope) : scope := map (fun p => (ren_entry (fst p), snd p)) s.
Definition ren_env (en : env) : env := map ren_scope en.

Fixpoint ren (t : rtree) : rtree :=
  match t with
  | RVar u q x => RVar u (option_map f q) (f x)
  | RRec bind b body => RRec bind (f b) (ren body)
  | RNode cs => RNode (map ren cs)
  end.

Lemma N_eqb_inj a b : N.eqb (f a) (f b) = N.eqb a b.
Proof.
  destruct (N.eqb_spec a b) as [->|H]; [apply N.eqb_refl|].
  apply N.eqb_neq. intros E. apply H, f_inj, E.
Qed.

Lemma ren_entry_eqb a b : entry_eqb (ren_entry a) (ren_entry b) = entry_eqb a b.
Proof.
  destruct a as [x [q|]], b as [y [r|]]; unfold entry_eqb, ren_entry; cbn; rewrite ?N_eqb_inj; reflexivity.
Qed.

Lemma ren_sc_get e s : sc_get (ren_entry e) (ren_scope s) = sc_get e s.
Proof.
  induction s as [|[e' d] s IH]; cbn [ren_scope map sc_get fst snd]; [reflexivity|].
  rewrite ren_entry_eqb. destruct (entry_eqb e e'); [reflexivity|exact IH].
Qed.

Lemma ren_lookup e en : lookup (ren_entry e) (ren_env en) = lookup e en.
Proof.
  induction en as [|s en IH]; cbn [ren_env map lookup]; [reflexivity|].
  rewrite ren_sc_get. destruct (sc_get e s); [reflexivity|exact IH].
Qed.

Theorem alpha_resolution : forall t en, lex (ren_env en) (ren t) = lex en t.
Proof.
  induction t as [u q x|bind b body IH|cs IH] using rtree_ind'; intros en.
  - cbn [ren lex]. change (f x, option_map f q) with (ren_entry (x, q)). rewrite ren_lookup. reflexivity.
  - cbn [ren lex]. specialize (IH ([((b, None), DExt bind)] :: en)). cbn in IH. exact IH.
  - cbn [ren lex]. induction IH as [|c cs Hc _ IHcs]; cbn [map seq_results]; [reflexivity|].
    rewrite Hc. destruct (lex en c); [|reflexivity]. rewrite IHcs. reflexivity.
Qed.
End Alpha.

(** the walk over the renamed tree therefore gives the same binders *)
Corollary alpha_walk f (f_inj : forall a b, f a = f b -> a = b) t en :
  run (linearize (ren f t)) (ren_env f en) [] =
  match lex en t with inl ds => inl (ren_env f en, ds) | inr e => inr e end.
Proof.
  pose proof (run_is_lex (ren f t) [] (ren_env f en) []) as H. rewrite app_nil_r in H. rewrite H.
  rewrite (alpha_resolution f f_inj). destruct (lex en t); reflexivity.
Qed.
