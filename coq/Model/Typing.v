(** The typing discipline that inference and type checking (inference/mod.rs [tag], [constrain];
    typecheck.rs [type_check]) enforce on accepted programs, for fully resolved (variable-free)
    tags, as an executable checker over the evaluator model's syntax.

    In the code every node gets a tag, the equations of [constrain] are solved by unification
    and the kind predicates of [type_check] are tested on the substituted tags. When no tag
    variable is left the equations determine every tag bottom-up from the tags of the
    declarations (the environment [sig]) and of the recursion nodes ([rtag]): [synth] computes
    that tag and fails where an equation or a kind check would fail. The harness reads the real
    tags of declarations and recursion nodes off the compiled trees; the tie checks that every
    accepted variable-free program passes [wt_progb]. *)
From Oal Require Export Tag Eval.
Local Open Scope N_scope.

Definition T (b : base) : tag := TBase b.

Definition is_schema_t (t : tag) : bool :=
  match t with
  | TBase BPrimitive | TBase BRelation | TBase BObject | TBase BArray | TBase BUri | TBase BAny => true
  | _ => false
  end.
Definition content_like_t (t : tag) : bool := is_schema_t t || match t with TBase BContent => true | _ => false end.
Definition status_like_t (t : tag) : bool := match t with TBase BStatus | TBase BNumber => true | _ => false end.
Definition relation_like_t (t : tag) : bool := match t with TBase BRelation | TBase BUri => true | _ => false end.
Definition is_uri_t (t : tag) : bool := match t with TBase BUri => true | _ => false end.
Definition is_property_t (t : tag) : bool := match t with TProperty _ => true | _ => false end.

Fixpoint ground (t : tag) : bool :=
  match t with
  | TBase _ => true
  | TProperty t' => ground t'
  | TFunc bs r => forallb ground bs && ground r
  | TVar _ => false
  end.

Record tenv := mk_tenv {
  sig : list (list tag);                 (* the tag of every declaration, per module *)
  rtag : list ((N * N) * tag) }.         (* the tag of every recursion node *)

Definition sig_get (E : tenv) (m i : N) : option tag :=
  match nth_error (sig E) (N.to_nat m) with Some ts => nth_error ts (N.to_nat i) | None => None end.
Definition nn_eqb (a b : N * N) : bool := N.eqb (fst a) (fst b) && N.eqb (snd a) (snd b).
Definition rec_get (E : tenv) (m i : N) : option tag := im_get nn_eqb (m, i) (rtag E).

Definition ctx := list (N * tag).
Definition ctx_get (x : N) (G : ctx) : option tag := im_get N.eqb x G.

Definition all2 {A B} (f : A -> B -> bool) : list A -> list B -> bool :=
  fix go (l1 : list A) (l2 : list B) : bool :=
    match l1, l2 with
    | [], [] => true
    | a :: l1', b :: l2' => f a b && go l1' l2'
    | _, _ => false
    end.

Definition is_tag (o : option tag) (t : tag) : bool := match o with Some t' => tag_eqb t' t | None => false end.
Definition has (p : tag -> bool) (o : option tag) : bool := match o with Some t => p t | None => false end.

Definition concat_tag : tag := TFunc [T BUri; T BUri] (T BUri).

Fixpoint synth (E : tenv) (G : ctx) (e : expr) : option tag :=
  match e with
  | ETerm _ e' | ESub e' => synth E G e'
  | EPrim p => if N.ltb p 5 then Some (T BPrimitive) else None
  | ELitStr _ => Some (T BText)
  | ELitNum _ => Some (T BNumber)
  | ELitStat _ => Some (T BStatus)
  | EDecl m i => match sig_get E m i with Some t => if ground t then Some t else None | None => None end
  | EConcat => Some concat_tag
  | EBind x => ctx_get x G
  | EApp f args =>
      match synth E G f with
      | Some (TFunc bs r) => if all2 (fun a b => is_tag (synth E G a) b) args bs then Some r else None
      | _ => None
      end
  | ERec m i x e' =>
      match rec_get E m i with
      | Some t => if is_schema_t t && negb (is_uri_t t) && is_tag (synth E ((x, t) :: G) e') t then Some t else None
      | None => None
      end
  | EObj ps => if forallb (fun p => has is_property_t (synth E G p)) ps then Some (T BObject) else None
  | EProp _ _ e' =>
      match synth E G e' with Some t => if is_schema_t t then Some (TProperty t) else None | None => None end
  | EUnary _ e' =>
      match synth E G e' with Some (TProperty t) => Some (TProperty t) | _ => None end
  | EArr e' => if has is_schema_t (synth E G e') then Some (T BArray) else None
  | EOp op es =>
      match op with
      | 0 => if forallb (fun o => is_tag (synth E G o) (T BObject)) es then Some (T BObject) else None
      | 1 => if forallb (fun o => has is_schema_t (synth E G o)) es then Some (T BAny) else None
      | 2 => match es with
             | [] => None
             | o1 :: _ =>
                 match synth E G o1 with
                 | Some t => if is_schema_t t && forallb (fun o => is_tag (synth E G o) t) es then Some t else None
                 | None => None
                 end
             end
      | 3 => if forallb (fun o => has content_like_t (synth E G o)) es then Some (T BContent) else None
      | _ => None
      end
  | ECont body metas =>
      if match body with Some b => has is_schema_t (synth E G b) | None => true end &&
         forallb (fun ke => match ke with
                            | (0, rhs) => is_tag (synth E G rhs) (T BText)
                            | (1, rhs) => is_tag (synth E G rhs) (T BObject)
                            | (2, rhs) => has status_like_t (synth E G rhs)
                            | _ => false
                            end) metas
      then Some (T BContent) else None
  | EXfer ms dom rg prm =>
      if forallb (fun m => N.ltb m 7) ms &&
         match dom with Some d => has content_like_t (synth E G d) | None => true end &&
         has content_like_t (synth E G rg) &&
         match prm with Some p => is_tag (synth E G p) (T BObject) | None => true end
      then Some (T BTransfer) else None
  | EUri segs prm =>
      if match segs with [] => false | _ => true end &&
         forallb (fun sg => match sg with
                            | inl _ => true
                            | inr v => is_tag (synth E G v) (TProperty (T BPrimitive))
                            end) segs &&
         match prm with Some p => is_tag (synth E G p) (T BObject) | None => true end
      then Some (T BUri) else None
  | ERel u xs =>
      if is_tag (synth E G u) (T BUri) && forallb (fun x => is_tag (synth E G x) (T BTransfer)) xs
      then Some (T BRelation) else None
  end.

(** the typing context of a declaration body: parameters in order, a later duplicate replaces
    an earlier one (as the scope of an application does) *)
Fixpoint mkctx (ps : list N) (bs : list tag) (G : ctx) : ctx :=
  match ps, bs with
  | p :: ps', b :: bs' => mkctx ps' bs' (im_insert N.eqb p b G)
  | _, _ => G
  end.

Definition is_some {A} (o : option A) : bool := match o with Some _ => true | None => false end.

(** a declaration whose tag keeps a variable (a function that is never applied, ...) is not
    checked, and cannot be used: [synth] fails on a variable that refers to it *)
Definition decl_okb (E : tenv) (d : decl) (t : tag) : bool :=
  negb (ground t) ||
  match d_params d with
  | [] => is_tag (synth E [] (d_rhs d)) t && (if is_some (d_ref d) || d_rec d then is_schema_t t else true)
  | ps => match t with
          | TFunc bs r => Nat.eqb (length bs) (length ps) && is_tag (synth E (mkctx ps bs []) (d_rhs d)) r
          | _ => false
          end
  end.

(** the same @name always carries the same tag (K5 / K21 otherwise) *)
Definition named (P : prog) (E : tenv) : list (str * tag) :=
  flat_map (fun dt : list decl * list tag =>
              flat_map (fun x : decl * tag => match d_ref (fst x) with Some s => [(s, snd x)] | None => [] end)
                       (combine (fst dt) (snd dt)))
           (combine P (sig E)).
Definition named_okb (l : list (str * tag)) : bool :=
  forallb (fun a => forallb (fun b => negb (N.eqb (fst a) (fst b)) || tag_eqb (snd a) (snd b)) l) l.

Definition wt_progb (E : tenv) (P : prog) (rs : list expr) : bool :=
  all2 (fun ds ts => all2 (decl_okb E) ds ts) P (sig E) &&
  named_okb (named P E) &&
  forallb (fun r => has relation_like_t (synth E [] r)) rs.
