open BinNums
open BinPos
open Datatypes

module N =
 struct
  (** val add : coq_N -> coq_N -> coq_N **)

  let add n m =
    match n with
    | N0 -> m
    | Npos p -> (match m with
                 | N0 -> n
                 | Npos q -> Npos (Pos.add p q))

  (** val sub : coq_N -> coq_N -> coq_N **)

  let sub n m =
    match n with
    | N0 -> N0
    | Npos n' ->
      (match m with
       | N0 -> n
       | Npos m' ->
         (match Pos.sub_mask n' m' with
          | Pos.IsPos p -> Npos p
          | _ -> N0))

  (** val compare : coq_N -> coq_N -> comparison **)

  let compare n m =
    match n with
    | N0 -> (match m with
             | N0 -> Eq
             | Npos _ -> Lt)
    | Npos n' -> (match m with
                  | N0 -> Gt
                  | Npos m' -> Pos.compare n' m')

  (** val eqb : coq_N -> coq_N -> bool **)

  let eqb n m =
    match n with
    | N0 -> (match m with
             | N0 -> true
             | Npos _ -> false)
    | Npos p -> (match m with
                 | N0 -> false
                 | Npos q -> Pos.eqb p q)

  (** val leb : coq_N -> coq_N -> bool **)

  let leb x y =
    match compare x y with
    | Gt -> false
    | _ -> true

  (** val ltb : coq_N -> coq_N -> bool **)

  let ltb x y =
    match compare x y with
    | Lt -> true
    | _ -> false

  (** val div2 : coq_N -> coq_N **)

  let div2 = function
  | N0 -> N0
  | Npos p0 ->
    (match p0 with
     | Coq_xI p -> Npos p
     | Coq_xO p -> Npos p
     | Coq_xH -> N0)

  (** val coq_land : coq_N -> coq_N -> coq_N **)

  let coq_land n m =
    match n with
    | N0 -> N0
    | Npos p -> (match m with
                 | N0 -> N0
                 | Npos q -> Pos.coq_land p q)

  (** val shiftr : coq_N -> coq_N -> coq_N **)

  let shiftr a = function
  | N0 -> a
  | Npos p -> Pos.iter div2 a p

  (** val to_nat : coq_N -> nat **)

  let to_nat = function
  | N0 -> O
  | Npos p -> Pos.to_nat p
 end
