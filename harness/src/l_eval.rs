//! Layer `eval`: the evaluator tie. For each request {"mods", "main"} the real front end
//! (load, parse, resolve, type check) runs; the resolved trees are transcribed through the
//! typed AST accessors into the model's syntax (an s-expression), the real `eval` runs on
//! the same module set, and its `Spec` (or error / panic) is printed in the model's result
//! format. Strings are interned in one table shared by both transcriptions.
use crate::l_compile::{guarded, install_panic_hook, Fail, MemLoader};
use oal_compiler::definition::Definition;
use oal_compiler::module::ModuleSet;
use oal_compiler::spec;
use oal_compiler::tree::{Core, NRef};
use oal_model::grammar::AbstractSyntaxNode;
use oal_model::locator::Locator;
use oal_syntax::atom;
use oal_syntax::lexer as lex;
use oal_syntax::parser as syn;
use serde_json::{json, Value};
use std::collections::HashMap;
use std::io::{BufRead, Write};

const KEYS: [&str; 17] = [
    "", "description", "title", "required", "examples", "summary", "tags", "operationId", "example",
    "minimum", "maximum", "multipleOf", "pattern", "enum", "format", "minLength", "maxLength",
];

struct Tr<'a> {
    mods: &'a ModuleSet,
    strings: Vec<String>,
    index: HashMap<String, usize>,
    floats: Vec<u64>,
    modnum: HashMap<String, usize>,
    declnum: HashMap<(usize, String), usize>,
    rec_seq: usize,
    rec_tags: Vec<String>,
    unsupported: Option<String>,
}

fn opt(x: Option<String>) -> String {
    match x {
        Some(s) => format!("({})", s),
        None => "()".to_owned(),
    }
}

fn list(xs: Vec<String>) -> String {
    format!("({})", xs.join(" "))
}

impl<'a> Tr<'a> {
    fn intern(&mut self, s: &str) -> usize {
        if let Some(i) = self.index.get(s) {
            return *i;
        }
        let i = self.strings.len();
        self.strings.push(s.to_owned());
        self.index.insert(s.to_owned(), i);
        i
    }

    fn intern_float(&mut self, f: f64) -> usize {
        let b = f.to_bits();
        if let Some(i) = self.floats.iter().position(|x| *x == b) {
            return i;
        }
        self.floats.push(b);
        self.floats.len() - 1
    }

    fn fail(&mut self, why: &str) -> String {
        if self.unsupported.is_none() {
            self.unsupported = Some(why.to_owned());
        }
        "(7)".to_owned()
    }

    fn yaml(&mut self, v: &serde_yaml::Value) -> String {
        use serde_yaml::Value as Y;
        match v {
            Y::Null => "(0)".to_owned(),
            Y::Bool(b) => format!("(1 {})", *b as u8),
            Y::Number(n) => {
                if let Some(i) = n.as_i64() {
                    if i.unsigned_abs() > (1u64 << 53) {
                        self.fail("integer beyond 2^53 in annotation");
                    }
                    format!("(2 {})", i)
                } else if let Some(u) = n.as_u64() {
                    self.fail("integer beyond 2^53 in annotation");
                    format!("(2 {})", u)
                } else {
                    let f = n.as_f64().unwrap();
                    let id = self.intern_float(f);
                    if f.fract() == 0.0 && f.abs() < 1e15 {
                        format!("(3 ({}) {})", f as i64, id)
                    } else {
                        format!("(3 () {})", id)
                    }
                }
            }
            Y::String(s) => format!("(4 {})", self.intern(s)),
            Y::Sequence(l) => {
                let xs = l.iter().map(|x| self.yaml(x)).collect();
                format!("(5 {})", list(xs))
            }
            Y::Mapping(m) => format!("(6 {})", self.mapping(m)),
            Y::Tagged(_) => self.fail("tagged YAML value"),
        }
    }

    fn mapping(&mut self, m: &serde_yaml::Mapping) -> String {
        let mut xs = Vec::new();
        for (k, v) in m.iter() {
            match k {
                serde_yaml::Value::String(s) => {
                    let k = self.intern(s);
                    let v = self.yaml(v);
                    xs.push(format!("({} {})", k, v));
                }
                _ => {
                    self.fail("non-string key in annotation");
                }
            }
        }
        list(xs)
    }

    fn annotation(&mut self, text: &str) -> String {
        match serde_yaml::from_str::<serde_yaml::Mapping>(format!("{{ {text} }}").as_str()) {
            Ok(m) => format!("((6 {}))", self.mapping(&m)),
            Err(_) => "()".to_owned(),
        }
    }

    fn annotations<I: Iterator<Item = syn::Annotation<'a, Core>>>(&mut self, it: I) -> String {
        let xs = it.map(|a| self.annotation(a.as_str())).collect();
        list(xs)
    }

    fn object(&mut self, o: syn::Object<'a, Core>) -> String {
        let ps = o.properties().map(|p| self.expr(p)).collect();
        format!("(11 {})", list(ps))
    }

    fn variable(&mut self, v: syn::Variable<'a, Core>) -> String {
        let core = v.node().syntax().core_ref();
        match core.definition() {
            None => self.fail("variable without definition"),
            Some(Definition::Internal(_)) => "(7)".to_owned(),
            Some(Definition::External(ext)) => {
                let n = ext.node(self.mods);
                if let Some(d) = syn::Declaration::cast(n) {
                    let m = self.modnum[n.tree().locator().url().as_str()];
                    let key = (m, d.node().index().to_string());
                    match self.declnum.get(&key) {
                        Some(i) => format!("(6 {} {})", m, i),
                        None => self.fail("declaration outside a program"),
                    }
                } else if let Some(b) = syn::Binding::cast(n) {
                    format!("(8 {})", self.intern(b.ident().as_ref()))
                } else {
                    self.fail("definition is neither a declaration nor a binding")
                }
            }
        }
    }

    fn expr(&mut self, node: NRef<'a>) -> String {
        if syn::Program::cast(node).is_some() {
            self.fail("nested program")
        } else if let Some(r) = syn::Relation::cast(node) {
            let u = self.expr(r.uri().node());
            let xs = r.transfers().map(|x| self.expr(x)).collect();
            format!("(19 {} {})", u, list(xs))
        } else if let Some(t) = syn::UriTemplate::cast(node) {
            let mut segs = Vec::new();
            for seg in t.segments() {
                match seg {
                    syn::UriSegment::Element(e) => segs.push(format!("(0 {})", self.intern(e.as_str()))),
                    syn::UriSegment::Variable(v) => {
                        let e = self.expr(v.inner());
                        segs.push(format!("(1 {})", e))
                    }
                }
            }
            let p = t.params().map(|o| self.object(o));
            format!("(18 {} {})", list(segs), opt(p))
        } else if let Some(v) = syn::Variable::cast(node) {
            self.variable(v)
        } else if let Some(t) = syn::Terminal::cast(node) {
            let anns = self.annotations(t.annotations());
            let e = self.expr(t.inner());
            format!("(0 {} {})", anns, e)
        } else if let Some(c) = syn::Content::cast(node) {
            let body = c.body().map(|b| self.expr(b));
            let mut metas = Vec::new();
            for m in c.meta().into_iter().flatten() {
                let k = match m.kind() {
                    syn::ContentTagKind::Media => 0,
                    syn::ContentTagKind::Headers => 1,
                    syn::ContentTagKind::Status => 2,
                };
                let e = self.expr(m.rhs());
                metas.push(format!("({} {})", k, e));
            }
            format!("(16 {} {})", opt(body), list(metas))
        } else if let Some(o) = syn::Object::cast(node) {
            self.object(o)
        } else if let Some(o) = syn::VariadicOp::cast(node) {
            let op = match o.operator() {
                atom::VariadicOperator::Join => 0,
                atom::VariadicOperator::Any => 1,
                atom::VariadicOperator::Sum => 2,
                atom::VariadicOperator::Range => 3,
            };
            let es = o.operands().map(|x| self.expr(x)).collect();
            format!("(15 {} {})", op, list(es))
        } else if let Some(o) = syn::UnaryOp::cast(node) {
            let b = match o.operator() {
                atom::UnaryOperator::Optional => 0,
                atom::UnaryOperator::Required => 1,
            };
            let e = self.expr(o.operand());
            format!("(13 {} {})", b, e)
        } else if let Some(l) = syn::Literal::cast(node) {
            match (l.kind(), l.value()) {
                (syn::LiteralKind::HttpStatus, lex::TokenValue::HttpStatus(s)) => format!("(5 {})", status(s)),
                (syn::LiteralKind::Number, lex::TokenValue::Number(n)) => format!("(4 {})", n),
                (syn::LiteralKind::String, _) => format!("(3 {})", self.intern(l.as_str())),
                _ => self.fail("literal without value"),
            }
        } else if let Some(p) = syn::Property::cast(node) {
            let name = self.intern(p.name().as_ref());
            let req = match p.required() {
                None => 0,
                Some(false) => 1,
                Some(true) => 2,
            };
            let e = self.expr(p.rhs());
            format!("(12 {} {} {})", name, req, e)
        } else if let Some(p) = syn::Primitive::cast(node) {
            let k = match p.kind() {
                syn::PrimitiveKind::Bool => 0,
                syn::PrimitiveKind::Int => 1,
                syn::PrimitiveKind::Num => 2,
                syn::PrimitiveKind::Str => 3,
                syn::PrimitiveKind::Uri => 4,
            };
            format!("(2 {})", k)
        } else if let Some(a) = syn::Array::cast(node) {
            let e = self.expr(a.inner());
            format!("(14 {})", e)
        } else if let Some(a) = syn::Application::cast(node) {
            let f = self.variable(a.lambda());
            let args = a.arguments().map(|t| self.expr(t.node())).collect();
            format!("(9 {} {})", f, list(args))
        } else if let Some(s) = syn::SubExpression::cast(node) {
            let e = self.expr(s.inner());
            format!("(1 {})", e)
        } else if let Some(x) = syn::Transfer::cast(node) {
            let ms = x.methods().map(|m| method(m).to_string()).collect();
            let dom = x.domain().map(|t| self.expr(t.node()));
            let rg = self.expr(x.range());
            let prm = x.params().map(|o| self.object(o));
            format!("(17 {} {} {} {})", list(ms), opt(dom), rg, opt(prm))
        } else if syn::Declaration::cast(node).is_some() {
            self.fail("declaration in expression position")
        } else if syn::Binding::cast(node).is_some() {
            self.fail("binding in expression position")
        } else if let Some(r) = syn::Recursion::cast(node) {
            let m = self.modnum[node.tree().locator().url().as_str()];
            self.rec_seq += 1;
            let i = self.rec_seq;
            let b = self.intern(r.binding().ident().as_ref());
            self.rec_tags.push(format!("({} {} {})", m, i, tag_sx(&oal_compiler::tree::get_tag(node))));
            let e = self.expr(r.rhs());
            format!("(10 {} {} {} {})", m, i, b, e)
        } else {
            self.fail("unexpected node")
        }
    }

    fn decl(&mut self, d: syn::Declaration<'a, Core>) -> String {
        let ident = d.ident();
        let r = if ident.is_reference() { Some(self.intern(ident.as_ref()).to_string()) } else { None };
        let rc = d.node().syntax().core_ref().is_recursive as u8;
        let anns = self.annotations(d.annotations());
        let ps = d.bindings().map(|b| self.intern(b.ident().as_ref()).to_string()).collect();
        let rhs = self.expr(d.rhs());
        format!("({} {} {} {} {})", opt(r), rc, anns, list(ps), rhs)
    }

    // ---- the real Spec in the model's result format
    fn ostr(&mut self, s: &Option<String>) -> String {
        opt(s.as_ref().map(|s| self.intern(s).to_string()))
    }

    fn onum(&mut self, f: &Option<f64>) -> String {
        match f {
            None => "()".to_owned(),
            Some(f) => {
                if f.fract() == 0.0 && f.abs() < 1e15 {
                    format!("((0 {}))", *f as i64)
                } else {
                    format!("((1 {}))", self.intern_float(*f))
                }
            }
        }
    }

    fn examples<'b, I: Iterator<Item = (&'b String, &'b String)>>(&mut self, e: Option<I>) -> String {
        match e {
            None => "()".to_owned(),
            Some(m) => {
                let xs = m.map(|(k, v)| format!("({} {})", self.intern(k), self.intern(v))).collect();
                format!("({})", list(xs))
            }
        }
    }

    fn key(&mut self, refs: &spec::References, id: &atom::Ident) -> String {
        match refs.get_index_of(id) {
            Some(i) => i.to_string(),
            None => "-1".to_owned(),
        }
    }

    fn schema(&mut self, refs: &spec::References, s: &spec::Schema) -> String {
        let e = match &s.expr {
            spec::SchemaExpr::Num(p) => format!(
                "(0 {} {} {} {})",
                self.onum(&p.minimum),
                self.onum(&p.maximum),
                self.onum(&p.multiple_of),
                self.onum(&p.example)
            ),
            spec::SchemaExpr::Str(p) => {
                let en = p.enumeration.iter().map(|s| self.intern(s).to_string()).collect();
                format!(
                    "(1 {} {} {} {} {} {})",
                    self.ostr(&p.pattern),
                    list(en),
                    self.ostr(&p.format),
                    self.ostr(&p.example),
                    opt(p.min_length.map(|x| x.to_string())),
                    opt(p.max_length.map(|x| x.to_string()))
                )
            }
            spec::SchemaExpr::Bool(_) => "(2)".to_owned(),
            spec::SchemaExpr::Int(p) => format!(
                "(3 {} {} {} {})",
                opt(p.minimum.map(|x| x.to_string())),
                opt(p.maximum.map(|x| x.to_string())),
                opt(p.multiple_of.map(|x| x.to_string())),
                opt(p.example.map(|x| x.to_string()))
            ),
            spec::SchemaExpr::Rel(r) => format!("(4 {})", self.relation(refs, r)),
            spec::SchemaExpr::Uri(u) => format!("(5 {})", self.uri(refs, u)),
            spec::SchemaExpr::Array(a) => format!("(6 {})", self.schema(refs, &a.item)),
            spec::SchemaExpr::Object(o) => format!("(7 {})", self.props(refs, &o.props)),
            spec::SchemaExpr::Op(o) => {
                let op = match o.op {
                    atom::VariadicOperator::Join => 0,
                    atom::VariadicOperator::Any => 1,
                    atom::VariadicOperator::Sum => 2,
                    atom::VariadicOperator::Range => 3,
                };
                let ss = o.schemas.iter().map(|s| self.schema(refs, s)).collect();
                format!("(8 {} {})", op, list(ss))
            }
            spec::SchemaExpr::Ref(id) => format!("(9 {})", self.key(refs, id)),
        };
        format!(
            "({} {} {} {} {})",
            e,
            self.ostr(&s.desc),
            self.ostr(&s.title),
            opt(s.required.map(|b| (b as u8).to_string())),
            self.examples(s.examples.as_ref().map(|m| m.iter()))
        )
    }

    fn property(&mut self, refs: &spec::References, p: &spec::Property) -> String {
        format!(
            "({} {} {} {})",
            self.intern(p.name.as_ref()),
            self.schema(refs, &p.schema),
            self.ostr(&p.desc),
            opt(p.required.map(|b| (b as u8).to_string()))
        )
    }

    fn props(&mut self, refs: &spec::References, ps: &[spec::Property]) -> String {
        let xs = ps.iter().map(|p| self.property(refs, p)).collect();
        list(xs)
    }

    fn oprops(&mut self, refs: &spec::References, o: &Option<spec::Object>) -> String {
        opt(o.as_ref().map(|o| self.props(refs, &o.props)))
    }

    fn uri(&mut self, refs: &spec::References, u: &spec::Uri) -> String {
        let mut segs = Vec::new();
        for s in u.path.iter() {
            match s {
                spec::UriSegment::Literal(l) => segs.push(format!("(0 {})", self.intern(l.as_ref()))),
                spec::UriSegment::Variable(p) => segs.push(format!("(1 {})", self.property(refs, p))),
            }
        }
        format!("({} {} {})", list(segs), self.oprops(refs, &u.params), self.ostr(&u.example))
    }

    fn relation(&mut self, refs: &spec::References, r: &spec::Relation) -> String {
        let u = self.uri(refs, &r.uri);
        let mut xs = Vec::new();
        for (_, x) in r.xfers.iter() {
            xs.push(opt(x.as_ref().map(|t| self.transfer(refs, t))));
        }
        format!("({} {})", u, list(xs))
    }

    fn ostatus(s: &Option<atom::HttpStatus>) -> String {
        opt(s.as_ref().map(status))
    }

    fn transfer(&mut self, refs: &spec::References, t: &spec::Transfer) -> String {
        let ms = t.methods.iter().map(|(_, b)| (*b as u8).to_string()).collect();
        let dom = self.content(refs, &t.domain);
        let mut rg = Vec::new();
        for ((st, media), c) in t.ranges.iter() {
            rg.push(format!("({} {} {})", Self::ostatus(st), self.ostr(media), self.content(refs, c)));
        }
        let tags = t.tags.iter().map(|s| self.intern(s).to_string()).collect();
        format!(
            "({} {} {} {} {} {} {} {})",
            list(ms),
            dom,
            list(rg),
            self.oprops(refs, &t.params),
            self.ostr(&t.desc),
            self.ostr(&t.summary),
            list(tags),
            self.ostr(&t.id)
        )
    }

    fn content(&mut self, refs: &spec::References, c: &spec::Content) -> String {
        format!(
            "({} {} {} {} {} {})",
            opt(c.schema.as_ref().map(|s| self.schema(refs, s))),
            Self::ostatus(&c.status),
            self.ostr(&c.media),
            self.oprops(refs, &c.headers),
            self.ostr(&c.desc),
            self.examples(c.examples.as_ref().map(|m| m.iter()))
        )
    }

    fn spec(&mut self, s: &spec::Spec) -> String {
        let rels = s.rels.iter().map(|r| self.relation(&s.refs, r)).collect();
        let mut refs = Vec::new();
        for (id, r) in s.refs.iter() {
            let spec::Reference::Schema(sc) = r;
            let name = if id.is_reference() { self.intern(id.as_ref()).to_string() } else { "-1".to_owned() };
            refs.push(format!("({} {})", name, self.schema(&s.refs, sc)));
        }
        format!("({} {})", list(rels), list(refs))
    }
}

fn tag_sx(t: &oal_compiler::verif::Tag) -> String {
    use oal_compiler::verif::Tag;
    match t {
        Tag::Text => "(0 0)".to_owned(),
        Tag::Number => "(0 1)".to_owned(),
        Tag::Status => "(0 2)".to_owned(),
        Tag::Primitive => "(0 3)".to_owned(),
        Tag::Relation => "(0 4)".to_owned(),
        Tag::Object => "(0 5)".to_owned(),
        Tag::Content => "(0 6)".to_owned(),
        Tag::Transfer => "(0 7)".to_owned(),
        Tag::Array => "(0 8)".to_owned(),
        Tag::Uri => "(0 9)".to_owned(),
        Tag::Any => "(0 10)".to_owned(),
        Tag::Property(t) => format!("(1 {})", tag_sx(t)),
        Tag::Func(f) => {
            let bs = f.bindings.iter().map(tag_sx).collect();
            format!("(2 {} {})", list(bs), tag_sx(&f.range))
        }
        Tag::Var(_) => "(3 0)".to_owned(),
    }
}

fn text_sx(s: &str) -> String {
    list(s.chars().map(|c| (c as u32).to_string()).collect())
}

fn status(s: &atom::HttpStatus) -> String {
    match s {
        atom::HttpStatus::Code(c) => format!("(0 {})", c),
        atom::HttpStatus::Range(r) => {
            let i = match r {
                atom::HttpStatusRange::Info => 0,
                atom::HttpStatusRange::Success => 1,
                atom::HttpStatusRange::Redirect => 2,
                atom::HttpStatusRange::ClientError => 3,
                atom::HttpStatusRange::ServerError => 4,
            };
            format!("(1 {})", i)
        }
    }
}

fn method(m: atom::Method) -> usize {
    match m {
        atom::Method::Get => 0,
        atom::Method::Put => 1,
        atom::Method::Post => 2,
        atom::Method::Patch => 3,
        atom::Method::Delete => 4,
        atom::Method::Options => 5,
        atom::Method::Head => 6,
    }
}

fn panic_site(msg: &str) -> usize {
    let table = [
        ("not a schema", 1),
        ("not a content", 2),
        ("not ranges", 3),
        ("not a string", 4),
        ("not a property", 5),
        ("not an HTTP status", 6),
        ("not an object", 7),
        ("not a transfer", 8),
        ("not a relation", 9),
        ("not a uri", 10),
        ("not a lambda", 11),
        ("should exist", 12),
        ("unknown module", 13),
        ("assertion", 14),
        ("called `Option::unwrap()` on a `None` value", 15),
    ];
    for (k, v) in table {
        if msg.contains(k) {
            return v;
        }
    }
    99
}

fn one(files: &HashMap<String, String>, main: &str, base: Option<&str>) -> Value {
    let main_loc = match Locator::try_from(main) {
        Ok(l) => l,
        Err(e) => return json!({"status": "rejected", "msg": e.to_string()}),
    };
    let mut loader = MemLoader { files, syntax_errors: Vec::new(), lenient: false };
    let mods = match oal_compiler::module::load(&mut loader, &main_loc) {
        Ok(m) => m,
        Err(Fail::Syntax(m, _)) => return json!({"status": "rejected", "phase": "parse", "msg": m}),
        Err(Fail::Compiler(k, m, _)) => return json!({"status": "rejected", "phase": "compile", "kind": k, "msg": m}),
        Err(Fail::Other(m)) => return json!({"status": "rejected", "phase": "load", "msg": m}),
    };
    let mut tr = Tr {
        mods: &mods,
        strings: Vec::new(),
        index: HashMap::new(),
        floats: Vec::new(),
        modnum: HashMap::new(),
        declnum: HashMap::new(),
        rec_seq: 0,
        rec_tags: Vec::new(),
        unsupported: None,
    };
    for k in KEYS {
        tr.intern(k);
    }
    let mut locs: Vec<String> = mods.locators().map(|l| l.url().as_str().to_owned()).collect();
    locs.sort();
    for (i, l) in locs.iter().enumerate() {
        tr.modnum.insert(l.clone(), i);
    }
    // first pass: number the declarations of every module
    let mut trees = Vec::new();
    for l in locs.iter() {
        let loc = Locator::try_from(l.as_str()).unwrap();
        trees.push(mods.get(&loc).unwrap());
    }
    for (m, t) in trees.iter().enumerate() {
        if let Some(p) = syn::Program::cast(t.root()) {
            for (i, d) in p.declarations().enumerate() {
                tr.declnum.insert((m, d.node().index().to_string()), i);
            }
        }
    }
    let mut ms = Vec::new();
    let mut sigs = Vec::new();
    for t in trees.iter() {
        match syn::Program::cast(t.root()) {
            Some(p) => {
                let ds: Vec<String> = p.declarations().map(|d| tr.decl(d)).collect();
                ms.push(list(ds));
                let ts: Vec<String> = p.declarations().map(|d| tag_sx(&oal_compiler::tree::get_tag(d.node()))).collect();
                sigs.push(list(ts));
            }
            None => {
                tr.fail("module root is not a program");
            }
        }
    }
    let mut rs = Vec::new();
    if let Some(p) = syn::Program::cast(mods.main().root()) {
        for r in p.resources() {
            rs.push(tr.expr(r.relation()));
        }
    }
    let prog = format!("({} {})", list(ms), list(rs));
    let tenv = format!("({} {})", list(sigs), list(tr.rec_tags.clone()));
    if let Some(why) = tr.unsupported.clone() {
        return json!({"status": "unsupported", "why": why});
    }
    let mut doc = Value::Null;
    let mut doc_base = Value::Null;
    let mut names = Vec::new();
    let result = match std::panic::catch_unwind(std::panic::AssertUnwindSafe(|| oal_compiler::eval::eval(&mods))) {
        Ok(Ok(s)) => {
            let dump = tr.spec(&s);
            for (id, _) in s.refs.iter() {
                names.push(text_sx(id.as_ref()));
            }
            // the document the real Builder makes of this Spec on the given base description: the base as
            // the CLI reads it (serde_yaml into openapiv3::OpenAPI), re-serialised, and the merged document
            if let Some(b) = base {
                doc_base = match serde_yaml::from_str::<openapiv3::OpenAPI>(b) {
                    Ok(bd) => {
                        let norm = serde_json::to_string(&bd).unwrap_or_default();
                        let s2 = s.clone();
                        match std::panic::catch_unwind(std::panic::AssertUnwindSafe(|| oal_openapi::Builder::new(s2).with_base(bd).into_openapi())) {
                            Ok(api) => json!({"base": norm, "text": serde_json::to_string(&api).unwrap_or_default()}),
                            Err(_) => json!({"builder_panic": crate::l_compile::last_panic()}),
                        }
                    }
                    Err(e) => json!({"base_error": e.to_string()}),
                };
            }
            // the document the real Builder makes of this Spec (no base)
            doc = match std::panic::catch_unwind(std::panic::AssertUnwindSafe(|| oal_openapi::Builder::new(s).into_openapi())) {
                // serialised to text: the order of IndexMap entries and struct fields is kept (a serde_json::Value would sort keys)
                Ok(api) => json!({"text": serde_json::to_string(&api).unwrap_or_default()}),
                Err(_) => json!({"builder_panic": crate::l_compile::last_panic()}),
            };
            format!("(0 {})", dump)
        }
        Ok(Err(e)) => {
            use oal_compiler::errors::Kind;
            let k = match e.kind {
                Kind::InvalidLiteral => 1,
                Kind::Yaml(_) => 2,
                _ => 9,
            };
            format!("(1 {})", k)
        }
        Err(_) => {
            let msg = crate::l_compile::last_panic();
            format!("(2 {})", panic_site(&msg))
        }
    };
    // the definition graph the recursion check works on: resolve() again on every module, edges as
    // ((module, declaration) (module, declaration)) in the numbering of the transcription
    let mut edges: Vec<String> = Vec::new();
    let mut edges_ok = true;
    let mut edges_why = String::new();
    for l in locs.iter() {
        let loc = Locator::try_from(l.as_str()).unwrap();
        match std::panic::catch_unwind(std::panic::AssertUnwindSafe(|| oal_compiler::verif::resolve(&mods, &loc))) {
            Ok(Ok(graph)) => {
                use petgraph::visit::{EdgeRef, IntoEdgeReferences};
                for e in (&graph).edge_references() {
                    let mut ends = Vec::new();
                    for ix in [e.source(), e.target()] {
                        let n = graph.node_weight(ix).unwrap().node(&mods);
                        let m = tr.modnum.get(n.tree().locator().url().as_str()).copied();
                        let i = m.and_then(|m| tr.declnum.get(&(m, n.index().to_string())).copied());
                        match (m, i) {
                            (Some(m), Some(i)) => ends.push(format!("{} {}", m, i)),
                            // bindings of parameters and rec variables are nodes of the graph too (never a source): not uses of declarations
                            _ => {}
                        }
                    }
                    if ends.len() == 2 {
                        edges.push(format!("({} {})", ends[0], ends[1]));
                    }
                }
            }
            Ok(Err(e)) => { edges_ok = false; edges_why = format!("resolve error {}", e); }
            Err(_) => { edges_ok = false; edges_why = "resolve panic".to_owned(); }
        }
    }
    let strs_sx = list(tr.strings.iter().map(|s| text_sx(s)).collect());
    let floats: Vec<f64> = tr.floats.iter().map(|b| f64::from_bits(*b)).collect();
    json!({"status": "ok", "prog": prog, "tenv": tenv, "result": result, "strings": tr.strings, "strs_sx": strs_sx,
           "names_sx": list(names), "floats": floats, "doc": doc, "doc_base": doc_base, "nmods": locs.len(),
           "graph_edges": if edges_ok { json!(edges) } else { json!({"why": edges_why}) }})
}

pub fn run() {
    install_panic_hook();
    let stdin = std::io::stdin();
    let stdout = std::io::stdout();
    let mut out = stdout.lock();
    for line in stdin.lock().lines() {
        let line = line.unwrap();
        let req: Value = match serde_json::from_str(&line) {
            Ok(v) => v,
            Err(e) => {
                writeln!(out, "{}", json!({"status": "bad-request", "msg": e.to_string()})).unwrap();
                continue;
            }
        };
        let mut files = HashMap::new();
        if let Some(m) = req["mods"].as_object() {
            for (k, v) in m.iter() {
                files.insert(k.clone(), v.as_str().unwrap_or("").to_owned());
            }
        }
        let main = req["main"].as_str().unwrap_or("file:///main.oal").to_owned();
        let base = req["base"].as_str().map(|s| s.to_owned());
        let res = guarded(std::panic::AssertUnwindSafe(|| one(&files, &main, base.as_deref())));
        writeln!(out, "{}", res).unwrap();
        out.flush().unwrap();
    }
}
