(** Model of oal-compiler/src/{resolve,env,stdlib}.rs: name resolution.

    The code walks the syntax tree with a cursor (Start / End events) and a mutable stack of
    hash-map scopes. [run] is that stack machine over the linearised event stream of a
    declaration body; [lex] is the lexical (environment-passing) definition of binding.
    Identifiers, qualifiers, node identities are numbers. *)
From Coq Require Export List NArith Bool.
Export ListNotations.

Inductive rtree :=
| RVar (use : N) (q : option N) (x : N)          (* Variable node [use]: [q.x] or [x] *)
| RRec (bind : N) (b : N) (body : rtree)         (* rec b body; [bind] is the Binding node *)
| RNode (children : list rtree).                 (* any other node *)

Inductive def := DExt (node : N) | DBuiltin (id : N).

Definition entry := (N * option N)%type.          (* identifier, qualifier *)
Definition entry_eqb (a b : entry) : bool :=
  N.eqb (fst a) (fst b) &&
  match snd a, snd b with
  | None, None => true
  | Some x, Some y => N.eqb x y
  | _, _ => false
  end.

Definition scope := list (entry * def).

(** HashMap::insert: replaces, returns whether the key was present *)
Fixpoint sc_insert (e : entry) (d : def) (s : scope) : scope :=
  match s with
  | [] => [(e, d)]
  | (e', d') :: s' => if entry_eqb e e' then (e, d) :: s' else (e', d') :: sc_insert e d s'
  end.
Fixpoint sc_get (e : entry) (s : scope) : option def :=
  match s with
  | [] => None
  | (e', d) :: s' => if entry_eqb e e' then Some d else sc_get e s'
  end.

Definition env := list scope.                     (* innermost scope first *)

(** Env::lookup: innermost scope that knows the entry *)
Fixpoint lookup (e : entry) (en : env) : option def :=
  match en with
  | [] => None
  | s :: en' => match sc_get e s with Some d => Some d | None => lookup e en' end
  end.

Inductive rerr := NotInScope (use : N) | DuplicateDecl (node : N).

Section Seq.
  Context {A : Type}.
  Variable f : A -> list (N * def) + rerr.
  Fixpoint seq_results (cs : list A) : list (N * def) + rerr :=
    match cs with
    | [] => inl []
    | c :: cs' =>
        match f c with
        | inl ds => match seq_results cs' with inl ds' => inl (ds ++ ds') | inr e => inr e end
        | inr e => inr e
        end
    end.
End Seq.

(** * the lexical definition: environments are passed down, nothing is mutated *)
Fixpoint lex (en : env) (t : rtree) : list (N * def) + rerr :=
  match t with
  | RVar u q x => match lookup (x, q) en with Some d => inl [(u, d)] | None => inr (NotInScope u) end
  | RRec bind b body => lex ([((b, None), DExt bind)] :: en) body
  | RNode cs => seq_results (lex en) cs
  end.

(** * the code: a cursor walk with a mutable scope stack *)
Inductive ev := EvVar (use : N) (q : option N) (x : N) | EvRecStart (bind b : N) | EvRecEnd.

Fixpoint linearize (t : rtree) : list ev :=
  match t with
  | RVar u q x => [EvVar u q x]
  | RRec bind b body => EvRecStart bind b :: linearize body ++ [EvRecEnd]
  | RNode cs => flat_map linearize cs
  end.

Fixpoint run (evs : list ev) (en : env) (acc : list (N * def)) : (env * list (N * def)) + rerr :=
  match evs with
  | [] => inl (en, acc)
  | EvVar u q x :: evs' =>
      match lookup (x, q) en with
      | Some d => run evs' en (acc ++ [(u, d)])
      | None => inr (NotInScope u)
      end
  | EvRecStart bind b :: evs' => run evs' (sc_insert (b, None) (DExt bind) [] :: en) acc    (* env.open(); declare *)
  | EvRecEnd :: evs' => run evs' (tl en) acc                                                (* env.close() *)
  end.

(** * declarations and the global scope *)
Record rdecl := mk_rdecl { d_node : N; d_name : N; d_params : list (N * N) (* Binding node, name *); d_rhs : rtree }.

(** open_declaration: a fresh scope in which the parameters are declared in order (a later
    duplicate replaces an earlier one) *)
Definition param_scope (ps : list (N * N)) : scope :=
  fold_left (fun s p => sc_insert (snd p, None) (DExt (fst p)) s) ps [].

Definition CONCAT : N := 0%N.    (* stdlib: the one built-in *)

(** global scope: stdlib first, then every import in order (silent overwrite), then the
    module's own declarations (an existing unqualified entry is an error) *)
Definition import_scope (s : scope) (imp : option N * list (N * N)) : scope :=
  fold_left (fun s d => sc_insert (fst d, fst imp) (DExt (snd d)) s) (snd imp) s.

Fixpoint declare_all (s : scope) (ds : list rdecl) : scope + rerr :=
  match ds with
  | [] => inl s
  | d :: ds' =>
      match sc_get (d_name d, None) s with
      | Some _ => inr (DuplicateDecl (d_node d))
      | None => declare_all (sc_insert (d_name d, None) (DExt (d_node d)) s) ds'
      end
  end.

Definition global_scope (imports : list (option N * list (N * N))) (ds : list rdecl) : scope + rerr :=
  declare_all (fold_left import_scope imports [((CONCAT, None), DBuiltin 0)]) ds.

(** resolution of one declaration body as the code does it *)
Definition resolve_decl_run (g : scope) (d : rdecl) : list (N * def) + rerr :=
  match run (linearize (d_rhs d)) [param_scope (d_params d); g] [] with
  | inl (_, acc) => inl acc
  | inr e => inr e
  end.

Definition resolve_decl_lex (g : scope) (d : rdecl) : list (N * def) + rerr :=
  lex [param_scope (d_params d); g] (d_rhs d).

(** * a whole module: statements in source order *)
Inductive stmt := SDecl (d : rdecl) | SRes (t : rtree).

Fixpoint decls_of (ss : list stmt) : list rdecl :=
  match ss with [] => [] | SDecl d :: ss' => d :: decls_of ss' | SRes _ :: ss' => decls_of ss' end.

Definition resolve_stmt (g : scope) (s : stmt) : list (N * def) + rerr :=
  match s with
  | SDecl d => resolve_decl_run g d
  | SRes t => match run (linearize t) [g] [] with inl (_, acc) => inl acc | inr e => inr e end
  end.

Definition resolve_module (imports : list (option N * list (N * N))) (ss : list stmt) : list (N * def) + rerr :=
  match global_scope imports (decls_of ss) with
  | inr e => inr e
  | inl g => seq_results (resolve_stmt g) ss
  end.
