"""Tie of the parser model (Model/Peg.v + Model/Grammar.v, extracted) with the real parser:
same token kinds in, same tree / end cursor out, with and without the memo table."""
import json
from . import core

TOKEN_KINDS = ["Space", "CommentLine", "CommentBlock", "PrimitiveNum", "PrimitiveStr", "PrimitiveUri", "PrimitiveBool", "PrimitiveInt",
               "PathElementRoot", "PathElementSegment", "MethodGet", "MethodPut", "MethodPost", "MethodPatch", "MethodDelete", "MethodOptions",
               "MethodHead", "ContentMedia", "ContentHeaders", "ContentStatus", "KeywordLet", "KeywordRes", "KeywordUse", "KeywordAs", "KeywordOn",
               "KeywordRec", "IdentifierValue", "IdentifierReference", "LiteralNumber", "LiteralString", "LiteralHttpStatus", "Property",
               "ControlBraceLeft", "ControlBraceRight", "ControlParenLeft", "ControlParenRight", "ControlBracketLeft", "ControlBracketRight",
               "ControlChevronLeft", "ControlChevronRight", "ControlSemicolon", "ControlFullStop", "ControlComma", "OperatorExclamationMark",
               "OperatorQuestionMark", "OperatorAmpersand", "OperatorTilde", "OperatorVerticalBar", "OperatorEqual", "OperatorColon",
               "OperatorDoubleColon", "OperatorArrow", "AnnotationLine", "AnnotationInline"]
TK = {k: i for i, k in enumerate(TOKEN_KINDS)}
SYNTAX_KINDS = ["Terminal", "SubExpression", "Variable", "ContentMeta", "ContentMetaList", "ContentBody", "Content", "Property", "Array",
                "Annotations", "Bindings", "Binding", "Declaration", "UriVariable", "UriPath", "UriParams", "UriTemplate", "PropertyList",
                "Object", "Application", "VariadicOp", "UnaryOp", "XferMethods", "XferParams", "XferDomain", "Transfer", "Import", "Qualifier",
                "Resource", "XferList", "Relation", "Recursion", "Program", "Error"]
SK = {k: i for i, k in enumerate(SYNTAX_KINDS)}


def sexpr(t):
    if t is None:
        return "none"
    if "t" in t:
        return str(t["t"])
    return "(" + " ".join([str(SK[t["k"]])] + [sexpr(c) for c in t["c"]]) + ")"


def impl_line(side):
    if side.get("tree") is None and "error" in side:
        return "fail"
    return "%d %s" % (side["end"], sexpr(side["tree"]))


def compare(reqs, verbose=False, counters=True):
    """reqs: harness `syntax` requests (kinds or text); returns the list of disagreements"""
    lines = [json.dumps(dict(r, tree=True)) for r in reqs]
    impl = core.run_stateless(core.IMPL, "syntax", lines)
    mlines = []
    parsed = []
    for o in impl:
        try:
            r = json.loads(o)
        except Exception:
            r = None
        parsed.append(r)
        if r is None or r.get("status") != "ok":
            mlines.append("?")
        else:
            mlines.append("G " + " ".join(str(TK[t[0]]) for t in r["tokens"]))
    model = core.run_stateless(core.RUNNER, "peg", mlines)
    bad = []
    ok = 0
    for rq, r, m in zip(reqs, parsed, model):
        if r is None or r.get("status") != "ok" or m is None or m == "?":
            continue
        pure, memo = [x.strip() for x in m.split("|")]
        mparts = memo.split(" reads=")
        mtree = mparts[0].strip()
        mcnt = dict(x.split("=") for x in ("reads=" + mparts[1]).split())
        c = r["cached"]
        ic = impl_line(c)
        if mtree != ic:
            bad.append(("memoised parse differs", rq, ic[:300], mtree[:300]))
            continue
        if "uncached" in r and pure != "skipped":
            iu = impl_line(r["uncached"])
            if pure != iu:
                bad.append(("unmemoised parse differs", rq, iu[:300], pure[:300]))
                continue
        if counters:
            ci = c["counters"]
            if (int(mcnt["reads"]), int(mcnt["hits"]), int(mcnt["size"])) != (ci["reads"], ci["hits"], ci["cache_size"]):
                bad.append(("counters differ", rq, "reads=%d hits=%d size=%d" % (ci["reads"], ci["hits"], ci["cache_size"]),
                            "reads=%s hits=%s size=%s" % (mcnt["reads"], mcnt["hits"], mcnt["size"])))
                continue
        ok += 1
    if verbose:
        print("agree:", ok)
    return bad if not verbose else bad
