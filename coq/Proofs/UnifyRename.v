(** The verdict of inference does not depend on the names of the type variables (C07): renaming
    the variables of a system of equations by a bijection keeps it solvable, hence accepted. *)
From Oal Require Import Tag Unify UnifyProofs UnifyTerm UnifyComplete.
From Coq Require Import Lia.
Local Open Scope N_scope.

Section Rename.
  Variable rho : N -> N.
  Hypothesis rho_inj : forall x y, rho x = rho y -> x = y.

  Fixpoint rt (t : tag) : tag :=
    match t with
    | TBase b => TBase b
    | TProperty t' => TProperty (rt t')
    | TFunc bs r => TFunc (map rt bs) (rt r)
    | TVar v => TVar (rho v)
    end.
  Definition rs (s : subst) : subst := map (fun vu : N * tag => (rho (fst vu), rt (snd vu))) s.
  Definition req (e : tag * tag) : tag * tag := (rt (fst e), rt (snd e)).

  Lemma eqb_rho x y : N.eqb (rho x) (rho y) = N.eqb x y.
  Proof. destruct (N.eqb_spec x y) as [->|H]; [apply N.eqb_refl|]. apply N.eqb_neq. intros E. apply H, rho_inj, E. Qed.

  Lemma occurs_rt v : forall t, occurs (rho v) (rt t) = occurs v t.
  Proof.
    induction t as [x|x IH|xs x IHxs IHx|y] using tag_ind'; cbn [rt occurs]; try reflexivity; try assumption.
    - rewrite IHx. f_equal. induction xs as [|b xs IHl]; [reflexivity|]. inversion IHxs as [|? ? Hb Hr]; subst. cbn [map existsb]. rewrite Hb, (IHl Hr). reflexivity.
    - apply eqb_rho.
  Qed.

  Lemma occurs_rt_inv w : forall t, occurs w (rt t) = true -> exists v, w = rho v /\ occurs v t = true.
  Proof.
    induction t as [x|x IH|xs x IHxs IHx|y] using tag_ind'; cbn [rt occurs]; intros H; try discriminate.
    - apply IH, H.
    - apply orb_prop in H as [H|H]; [destruct (IHx H) as (v & -> & Hv); exists v; split; [reflexivity|rewrite Hv; reflexivity]|].
      rewrite existsb_exists in H. destruct H as (b' & Hb' & Ho). apply in_map_iff in Hb' as (b & <- & Hb).
      rewrite Forall_forall in IHxs. destruct (IHxs b Hb Ho) as (v & -> & Hv). exists v. split; [reflexivity|].
      apply orb_true_iff. right. apply existsb_exists. exists b. split; assumption.
    - apply N.eqb_eq in H. subst w. exists y. split; [reflexivity|apply N.eqb_refl].
  Qed.

  Lemma lookup_rs s v : lookup (rs s) (rho v) = option_map rt (lookup s v).
  Proof. induction s as [|[w u] s IH]; [reflexivity|]. cbn [rs map lookup fst snd]. rewrite eqb_rho. destruct (N.eqb v w); [reflexivity|exact IH]. Qed.

  Lemma apply_one_rt v u : forall t, apply_one (rho v) (rt u) (rt t) = rt (apply_one v u t).
  Proof.
    induction t as [x|x IH|xs x IHxs IHx|y] using tag_ind'; cbn [rt apply_one]; try reflexivity.
    - f_equal. exact IH.
    - f_equal; [|exact IHx]. rewrite !map_map. apply map_ext_in. intros b Hb. rewrite Forall_forall in IHxs. apply IHxs, Hb.
    - rewrite eqb_rho. destruct (N.eqb y v); reflexivity.
  Qed.

  Lemma apply_rs s : forall t, apply (rs s) (rt t) = rt (apply s t).
  Proof. induction s as [|[v u] s IH]; intros t; [reflexivity|]. cbn [rs map apply fst snd]. fold (rs s). rewrite IH. apply apply_one_rt. Qed.

  Lemma TRI_rs s : TRI s -> TRI (rs s).
  Proof.
    induction s as [|[v u] s IH]; [trivial|]. cbn [TRI rs map fst snd]. fold (rs s). intros (Ht & Hl & Ho & Hr).
    split; [apply IH, Ht|]. split; [rewrite lookup_rs, Hl; reflexivity|]. split; [rewrite occurs_rt; exact Ho|].
    intros w Hw. destruct (occurs_rt_inv w u Hw) as (w' & -> & Hw'). rewrite lookup_rs, (Hr w' Hw'). reflexivity.
  Qed.

  Lemma solves_rs th eqs : solves th eqs -> solves (rs th) (map req eqs).
  Proof.
    unfold solves. intros H. apply Forall_forall. intros e He. apply in_map_iff in He as (e0 & <- & He0).
    rewrite Forall_forall in H. specialize (H e0 He0). cbn [req fst snd]. rewrite !apply_rs, H. reflexivity.
  Qed.

  (** a system that inference accepts is still accepted with its variables renamed *)
  Theorem acceptance_renaming eqs :
    (exists n s j, unify_all n [] eqs 0 = (UOk s, j)) -> exists n s j, unify_all n [] (map req eqs) 0 = (UOk s, j).
  Proof.
    intros H. destruct inference_decides_solvability as [_ Hiff].
    apply Hiff. apply Hiff in H as (th & Hs & Ht). exists (rs th). split; [apply solves_rs, Hs|apply TRI_rs, Ht].
  Qed.
End Rename.

(** with a bijection the verdict is the same in both directions *)
Lemma rt_rt rho rho' : (forall v, rho' (rho v) = v) -> forall t, rt rho' (rt rho t) = t.
Proof.
  intros H. induction t as [x|x IH|xs x IHxs IHx|y] using tag_ind'; cbn [rt]; try reflexivity.
  - f_equal. exact IH.
  - f_equal; [|exact IHx]. rewrite map_map. rewrite <- (map_id xs) at 2. apply map_ext_in. intros b Hb. rewrite Forall_forall in IHxs. apply IHxs, Hb.
  - rewrite H. reflexivity.
Qed.

Theorem acceptance_renaming_iff rho rho' eqs : (forall v, rho' (rho v) = v) -> (forall v, rho (rho' v) = v) ->
  (exists n s j, unify_all n [] eqs 0 = (UOk s, j)) <-> (exists n s j, unify_all n [] (map (req rho) eqs) 0 = (UOk s, j)).
Proof.
  intros H1 H2. split.
  - apply acceptance_renaming. intros x y E. rewrite <- (H1 x), <- (H1 y), E. reflexivity.
  - intros H. apply (acceptance_renaming rho') in H; [|intros x y E; rewrite <- (H2 x), <- (H2 y), E; reflexivity].
    rewrite map_map in H. rewrite (map_ext _ (fun e => e)) in H; [rewrite map_id in H; exact H|].
    intros [l r]. unfold req. cbn [fst snd]. rewrite !(rt_rt rho rho' H1). reflexivity.
Qed.

(** nor on which side of an equation a tag stands *)
Theorem acceptance_swap eqs :
  (exists n s j, unify_all n [] eqs 0 = (UOk s, j)) -> exists n s j, unify_all n [] (map (fun e : tag * tag => (snd e, fst e)) eqs) 0 = (UOk s, j).
Proof.
  intros H. destruct inference_decides_solvability as [_ Hiff]. apply Hiff. apply Hiff in H as (th & Hs & Ht). exists th. split; [|exact Ht].
  unfold solves in *. apply Forall_forall. intros e He. apply in_map_iff in He as (e0 & <- & He0). rewrite Forall_forall in Hs.
  cbn [fst snd]. symmetry. apply Hs, He0.
Qed.
