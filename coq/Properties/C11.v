(** Property C11 — the syntax tree is lossless and every reported span is exact.

    Proved here, for every grammar of the embedding, every token list and fuel: the leaves of
    the matches a parser returns are exactly the non-trivia tokens between the start cursor
    and the returned cursor, in source order, each once; cursors move forward only and rest
    on non-trivia tokens ([yield]); for the oal grammar the leaves of the program tree are
    the non-trivia tokens of the parsed prefix. A node's span in grammar.rs is computed from
    its first and last leaf, so it is the hull of its leaves by construction. Carried by the
    monitor on the real tokenizer (logos-generated, not modelled): tokens and lexical-error
    spans tile the text on character boundaries, token values are source slices, diagnostic
    spans lie in the text. *)
From Oal Require Import Peg Grammar PegProofs PegYield GrammarProofs.
Local Open Scope nat_scope.

Theorem C11_yield :
  forall class_ok is_trivia K g toks n p s acc s' ms,
  aligned is_trivia toks s -> s <= length toks ->
  run class_ok is_trivia K g toks n p s acc = Ok s' ms ->
  s <= s' /\ s' <= length toks /\ aligned is_trivia toks s' /\ leaves_of ms = ntriv is_trivia toks s s'.
Proof. exact yield. Qed.
Print Assumptions C11_yield.

Theorem C11_oal_yield : forall n toks s' ms,
  parse_pure n toks = Ok s' ms ->
  s' <= length toks /\ leaves_of ms = ntriv Grammar.is_trivia toks 0 s'.
Proof. exact oal_yield. Qed.
Print Assumptions C11_oal_yield.

Theorem C11_leaves_in_source_order :
  forall is_trivia toks s e i j, nth_error (ntriv is_trivia toks s e) i <> None -> nth_error (ntriv is_trivia toks s e) j <> None -> i < j ->
  forall a b, nth_error (ntriv is_trivia toks s e) i = Some a -> nth_error (ntriv is_trivia toks s e) j = Some b -> a < b.
Proof. exact ntriv_sorted. Qed.
Print Assumptions C11_leaves_in_source_order.
