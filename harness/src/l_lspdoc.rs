//! In-process document store of the language server: Workspace::{open, change, close} driven by
//! event lists, the stored texts read back through the verification hook.
//!   H <event>*   with  O <u> <n> <cp>*n | X <u> | C <u> <k> <change>*k ; change = F <n> <cp>*n | I <sl> <sc> <el> <ec> <n> <cp>*n
//! output: ok <u>:<n>:<cp>,...;...   (documents sorted by number)  |  dead
use lsp_types::{
    DidChangeTextDocumentParams, DidCloseTextDocumentParams, DidOpenTextDocumentParams, Position, Range,
    TextDocumentContentChangeEvent, TextDocumentIdentifier, TextDocumentItem, VersionedTextDocumentIdentifier,
};
use oal_client::lsp::verif::{document, documents};
use oal_client::lsp::Workspace;
use std::io::{BufRead, Write};

fn uri(u: &str) -> url::Url {
    url::Url::parse(&format!("file:///w/d{}.oal", u)).unwrap()
}

fn take_text<'a>(it: &mut std::slice::Iter<'a, &'a str>) -> String {
    let n: usize = it.next().unwrap().parse().unwrap();
    (0..n).map(|_| char::from_u32(it.next().unwrap().parse::<u32>().unwrap()).unwrap()).collect()
}

pub fn run() {
    crate::l_compile::install_panic_hook();
    let stdin = std::io::stdin();
    let stdout = std::io::stdout();
    let mut out = stdout.lock();
    for line in stdin.lock().lines() {
        let line = line.unwrap();
        let ws: Vec<&str> = line.split_whitespace().collect();
        let res = std::panic::catch_unwind(std::panic::AssertUnwindSafe(|| {
            let mut w = Workspace::default();
            let mut it = ws[1..].iter();
            while let Some(op) = it.next() {
                match *op {
                    "O" => {
                        let u = it.next().unwrap();
                        let text = take_text(&mut it);
                        w.open(DidOpenTextDocumentParams {
                            text_document: TextDocumentItem { uri: uri(u), language_id: "oal".into(), version: 1, text },
                        })
                        .unwrap();
                    }
                    "X" => {
                        let u = it.next().unwrap();
                        w.close(DidCloseTextDocumentParams { text_document: TextDocumentIdentifier { uri: uri(u) } }).unwrap();
                    }
                    "C" => {
                        let u = it.next().unwrap();
                        let k: usize = it.next().unwrap().parse().unwrap();
                        let mut changes = Vec::new();
                        for _ in 0..k {
                            match *it.next().unwrap() {
                                "F" => changes.push(TextDocumentContentChangeEvent { range: None, range_length: None, text: take_text(&mut it) }),
                                _ => {
                                    let v: Vec<u32> = (0..4).map(|_| it.next().unwrap().parse().unwrap()).collect();
                                    let text = take_text(&mut it);
                                    changes.push(TextDocumentContentChangeEvent {
                                        range: Some(Range::new(Position::new(v[0], v[1]), Position::new(v[2], v[3]))),
                                        range_length: None,
                                        text,
                                    });
                                }
                            }
                        }
                        w.change(DidChangeTextDocumentParams {
                            text_document: VersionedTextDocumentIdentifier { uri: uri(u), version: 2 },
                            content_changes: changes,
                        })
                        .unwrap();
                    }
                    _ => {}
                }
            }
            let mut docs: Vec<(u32, String)> = documents(&w)
                .iter()
                .map(|l| {
                    let p = l.url().path().to_owned();
                    let n: u32 = p.trim_start_matches("/w/d").trim_end_matches(".oal").parse().unwrap_or(0);
                    (n, document(&w, l).unwrap_or("").to_owned())
                })
                .collect();
            docs.sort();
            docs.iter()
                .map(|(n, t)| {
                    let cps: Vec<String> = t.chars().map(|c| (c as u32).to_string()).collect();
                    format!("{}:{}:{}", n, cps.len(), cps.join(","))
                })
                .collect::<Vec<_>>()
                .join(";")
        }));
        match res {
            Ok(s) => writeln!(out, "ok {}", s).unwrap(),
            Err(_) => writeln!(out, "dead").unwrap(),
        }
        out.flush().unwrap();
    }
}
