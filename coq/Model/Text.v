(** Texts as lists of Unicode scalar values; UTF-8 / UTF-16 lengths.
    Mirrors what Rust's [str::chars], [char::len_utf8], [char::len_utf16] expose. *)
From Coq Require Export List NArith Bool.
Export ListNotations.
Open Scope N_scope.

Definition text := list N.

Definition LF : N := 10.
Definition CR : N := 13.

Definition is_lf (c : N) : bool := N.eqb c LF.
Definition is_cr (c : N) : bool := N.eqb c CR.

(** [char::len_utf8] *)
Definition len8 (c : N) : N :=
  if N.ltb c 128 then 1 else if N.ltb c 2048 then 2 else if N.ltb c 65536 then 3 else 4.

(** [char::len_utf16] *)
Definition len16 (c : N) : N := if N.ltb c 65536 then 1 else 2.

Fixpoint len8s (t : text) : N :=
  match t with [] => 0 | c :: t' => len8 c + len8s t' end.

Fixpoint len16s (t : text) : N :=
  match t with [] => 0 | c :: t' => len16 c + len16s t' end.

Fixpoint count_lf (t : text) : N :=
  match t with [] => 0 | c :: t' => (if is_lf c then 1 else 0) + count_lf t' end.

(** the part of [t] after its last LF (the whole of [t] when it has none) *)
Fixpoint last_line (t : text) : text :=
  match t with
  | [] => []
  | c :: t' => if N.eqb (count_lf t) 0 then t else last_line t'
  end.

(** UTF-16 code units of a text (surrogate pairs for astral characters) *)
Definition units16 (c : N) : list N :=
  if N.ltb c 65536 then [c]
  else [55296 + N.shiftr (c - 65536) 10; 56320 + N.land (c - 65536) 1023].

Fixpoint utf16 (t : text) : list N :=
  match t with [] => [] | c :: t' => units16 c ++ utf16 t' end.

(** every CR is immediately followed by LF (the alphabet of property C16) *)
Fixpoint crlf_wf (t : text) : bool :=
  match t with
  | [] => true
  | c :: t' =>
      (if is_cr c then match t' with d :: _ => is_lf d | [] => false end else true)
      && crlf_wf t'
  end.

(** characters of the text starting at byte offset [i] when [i] is a boundary *)
Fixpoint split_at8 (t : text) (i : N) : option (text * text) :=
  if N.eqb i 0 then Some ([], t) else
  match t with
  | [] => None
  | c :: t' =>
      if N.ltb i (len8 c) then None else
      match split_at8 t' (i - len8 c) with
      | Some (a, b) => Some (c :: a, b)
      | None => None
      end
  end.
