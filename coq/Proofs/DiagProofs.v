(** After every refresh the client shows, for every locator, exactly the errors of the
    compilation just made: nothing stale survives, whatever the history of stores and
    compilations before it. Hence two histories that end with the same store and the same
    errors leave the client with the same diagnostics (history independence), in particular
    the history of a fresh server handed the final texts. The pinned code (before F7) is
    refuted by a witness. *)
From Oal Require Import Diag.
From Coq Require Import Lia.

Lemma dget_dtouch_same l m : dget l (dtouch l m) = Some (match dget l m with Some ds => ds | None => [] end).
Proof.
  induction m as [|[l' ds] m IH]; cbn [dtouch dget]; [rewrite N.eqb_refl; reflexivity|].
  destruct (N.eqb l l') eqn:E; cbn [dget]; rewrite E; [reflexivity|exact IH].
Qed.

Lemma dget_dtouch_other l l' m : l <> l' -> dget l (dtouch l' m) = dget l m.
Proof.
  intros Hne. induction m as [|[k ds] m IH]; cbn [dtouch dget].
  - destruct (N.eqb_spec l l'); [contradiction|reflexivity].
  - destruct (N.eqb l' k) eqn:E; cbn [dget]; [reflexivity|]. destruct (N.eqb l k); [reflexivity|exact IH].
Qed.

Lemma dget_dpush_same l d m : dget l (dpush l d m) = Some (match dget l m with Some ds => ds | None => [] end ++ [d]).
Proof.
  induction m as [|[l' ds] m IH]; cbn [dpush dget]; [rewrite N.eqb_refl; reflexivity|].
  destruct (N.eqb l l') eqn:E; cbn [dget]; rewrite E; [reflexivity|exact IH].
Qed.

Lemma dget_dpush_other l l' d m : l <> l' -> dget l (dpush l' d m) = dget l m.
Proof.
  intros Hne. induction m as [|[k ds] m IH]; cbn [dpush dget].
  - destruct (N.eqb_spec l l'); [contradiction|reflexivity].
  - destruct (N.eqb l' k) eqn:E; cbn [dget].
    + apply N.eqb_eq in E. subst k. destruct (N.eqb_spec l l'); [contradiction|reflexivity].
    + destruct (N.eqb l k); [reflexivity|exact IH].
Qed.

(** touching keys only adds empty entries *)
Lemma touch_all ks : forall m l,
  dget l (fold_left (fun m k => dtouch k m) ks m) =
  match dget l m with Some ds => Some ds | None => if existsb (N.eqb l) ks then Some [] else None end.
Proof.
  induction ks as [|k ks IH]; intros m l; cbn [fold_left existsb]; [destruct (dget l m); reflexivity|].
  rewrite IH. destruct (N.eqb_spec l k) as [->|Hne].
  - rewrite dget_dtouch_same. cbn [orb]. destruct (dget k m); reflexivity.
  - rewrite dget_dtouch_other by exact Hne. cbn [orb]. reflexivity.
Qed.

Lemma push_all errs : forall m l,
  dget l (fold_left (fun m ld => dpush (fst ld) (snd ld) m) errs m) =
  match dget l m, errs_of l errs with
  | Some ds, es => Some (ds ++ es)
  | None, [] => None
  | None, es => Some es
  end.
Proof.
  induction errs as [|[k d] errs IH]; intros m l; cbn [fold_left errs_of filter map fst snd].
  - destruct (dget l m); [rewrite app_nil_r|]; reflexivity.
  - rewrite IH. cbn [fst snd]. destruct (N.eqb_spec k l) as [->|Hne].
    + rewrite dget_dpush_same. cbn [map snd]. fold (errs_of l errs).
      destruct (dget l m) as [ds|]; [rewrite <- app_assoc; reflexivity|]. reflexivity.
    + rewrite dget_dpush_other by (intros E; apply Hne; symmetry; exact E). fold (errs_of l errs). reflexivity.
Qed.

(** the batch: an entry for every document, every previously reported locator and every
    locator with an error; each entry is the errors of its locator *)
Lemma batch_entry docs reported errs l :
  dget l (fst (diagnostics docs reported errs)) =
  if existsb (N.eqb l) docs || existsb (N.eqb l) reported || match errs_of l errs with [] => false | _ => true end
  then Some (errs_of l errs) else None.
Proof.
  unfold diagnostics. cbn [fst]. rewrite push_all, touch_all, touch_all. cbn [dget].
  destruct (existsb (N.eqb l) docs); cbn [orb]; [reflexivity|].
  destruct (existsb (N.eqb l) reported); cbn [orb]; [reflexivity|].
  destruct (errs_of l errs); reflexivity.
Qed.

Lemma dget_in l ds m : dget l m = Some ds -> In (l, ds) m.
Proof.
  induction m as [|[k x] m IH]; cbn [dget]; [discriminate|]. destruct (N.eqb_spec l k) as [->|Hne]; [intros [= <-]; left; reflexivity|].
  intros H. right. apply IH, H.
Qed.

Lemma batch_reported docs reported errs l :
  errs_of l errs <> [] -> In l (snd (diagnostics docs reported errs)).
Proof.
  intros H. pose proof (batch_entry docs reported errs l) as E.
  destruct (errs_of l errs) as [|e es] eqn:Ee; [contradiction|]. rewrite !orb_true_r in E.
  unfold diagnostics in *. cbn [fst snd] in *. apply dget_in in E.
  apply in_map_iff. exists (l, e :: es). split; [reflexivity|]. apply filter_In. split; [exact E|reflexivity].
Qed.

(** applying a batch: every locator of the batch shows its entry, the others are untouched *)
Lemma vget_vset_same l ds v : vget (vset l ds v) l = ds.
Proof.
  unfold vget. induction v as [|[k x] v IH]; cbn [vset dget]; [rewrite N.eqb_refl; reflexivity|].
  destruct (N.eqb l k) eqn:E; cbn [dget]; rewrite E; [reflexivity|exact IH].
Qed.
Lemma vget_vset_other l l' ds v : l <> l' -> vget (vset l' ds v) l = vget v l.
Proof.
  intros Hne. unfold vget. induction v as [|[k x] v IH]; cbn [vset dget].
  - destruct (N.eqb_spec l l'); [contradiction|reflexivity].
  - destruct (N.eqb l' k) eqn:E; cbn [dget].
    + apply N.eqb_eq in E. subst k. destruct (N.eqb_spec l l'); [contradiction|reflexivity].
    + destruct (N.eqb l k); [reflexivity|exact IH].
Qed.

Definition keys_unique (b : dmap) : Prop := NoDup (map fst b).

Lemma apply_batch_get b : forall v l, keys_unique b ->
  vget (apply_batch v b) l = match dget l b with Some ds => ds | None => vget v l end.
Proof.
  unfold apply_batch. induction b as [|[k ds] b IH]; intros v l Hu; cbn [fold_left dget fst snd]; [reflexivity|].
  inversion Hu as [|? ? Hk Hb]; subst. rewrite IH by exact Hb.
  destruct (N.eqb_spec l k) as [->|Hne].
  - destruct (dget k b) as [x|] eqn:E; [|apply vget_vset_same].
    exfalso. apply Hk. apply dget_in in E. apply in_map_iff. exists (k, x). split; [reflexivity|exact E].
  - destruct (dget l b); [reflexivity|]. apply vget_vset_other, Hne.
Qed.

Lemma dtouch_keys l m : keys_unique m -> keys_unique (dtouch l m) /\ forall k, In k (map fst (dtouch l m)) <-> k = l \/ In k (map fst m).
Proof.
  unfold keys_unique. induction m as [|[k ds] m IH]; intros Hu; cbn [dtouch map fst].
  - split; [constructor; [intros []|constructor]|]. intros k. cbn. intuition.
  - inversion Hu as [|? ? Hk Hm]; subst. destruct (N.eqb_spec l k) as [->|Hne]; cbn [map fst].
    + split; [exact Hu|]. intros x. cbn. intuition.
    + destruct (IH Hm) as [IHu IHk]. split.
      * constructor; [|exact IHu]. intros Hin. apply IHk in Hin as [->|Hin]; [apply Hne; reflexivity|exact (Hk Hin)].
      * intros x. cbn. rewrite IHk. intuition.
Qed.

Lemma dpush_keys l d m : keys_unique m -> keys_unique (dpush l d m) /\ forall k, In k (map fst (dpush l d m)) <-> k = l \/ In k (map fst m).
Proof.
  unfold keys_unique. induction m as [|[k ds] m IH]; intros Hu; cbn [dpush map fst].
  - split; [constructor; [intros []|constructor]|]. intros k. cbn. intuition.
  - inversion Hu as [|? ? Hk Hm]; subst. destruct (N.eqb_spec l k) as [->|Hne]; cbn [map fst].
    + split; [exact Hu|]. intros x. cbn. intuition.
    + destruct (IH Hm) as [IHu IHk]. split.
      * constructor; [|exact IHu]. intros Hin. apply IHk in Hin as [->|Hin]; [apply Hne; reflexivity|exact (Hk Hin)].
      * intros x. cbn. rewrite IHk. intuition.
Qed.

Lemma batch_unique docs reported errs : keys_unique (fst (diagnostics docs reported errs)).
Proof.
  unfold diagnostics. cbn [fst].
  assert (T : forall ks m, keys_unique m -> keys_unique (fold_left (fun m k => dtouch k m) ks m)).
  { induction ks as [|k ks IH]; intros m Hm; cbn [fold_left]; [exact Hm|]. apply IH, dtouch_keys, Hm. }
  assert (Pu : forall es m, keys_unique m -> keys_unique (fold_left (fun m ld => dpush (fst ld) (snd ld) m) es m)).
  { induction es as [|e es IH]; intros m Hm; cbn [fold_left]; [exact Hm|]. apply IH, dpush_keys, Hm. }
  apply Pu, T, T. constructor.
Qed.

(** * the refresh theorem *)
Definition inv (st : sc) : Prop := forall l, vget (s_view st) l <> [] -> In l (s_reported st).

Theorem refresh_exact st docs errs : inv st ->
  (forall l, vget (s_view (refresh st docs errs)) l = errs_of l errs) /\ inv (refresh st docs errs).
Proof.
  intros Hinv. unfold refresh.
  destruct (diagnostics docs (s_reported st) errs) as [b rep] eqn:Ed. cbn [s_view s_reported].
  assert (Hb : b = fst (diagnostics docs (s_reported st) errs)) by (rewrite Ed; reflexivity).
  assert (Hr : rep = snd (diagnostics docs (s_reported st) errs)) by (rewrite Ed; reflexivity).
  assert (Hget : forall l, vget (apply_batch (s_view st) b) l = errs_of l errs).
  { intros l. rewrite apply_batch_get by (rewrite Hb; apply batch_unique). rewrite Hb, batch_entry.
    destruct (existsb (N.eqb l) docs || existsb (N.eqb l) (s_reported st) || match errs_of l errs with [] => false | _ => true end) eqn:E; [reflexivity|].
    apply orb_false_elim in E as [E E3]. apply orb_false_elim in E as [_ E2].
    destruct (errs_of l errs) eqn:Ee; [|discriminate E3].
    (* not reported before: the client showed nothing *)
    destruct (vget (s_view st) l) as [|x xs] eqn:Ev; [reflexivity|]. exfalso.
    assert (Hin : In l (s_reported st)) by (apply Hinv; rewrite Ev; discriminate).
    assert (existsb (N.eqb l) (s_reported st) = true) by (apply existsb_exists; exists l; split; [exact Hin|apply N.eqb_refl]). congruence. }
  split; [exact Hget|]. intros l Hl. cbn [s_view s_reported] in *. rewrite Hget in Hl. rewrite Hr. apply batch_reported, Hl.
Qed.

(** any history of refreshes, each with its own store and errors *)
Fixpoint run (st : sc) (h : list (list loc * list (loc * diag))) : sc :=
  match h with [] => st | (docs, errs) :: h' => run (refresh st docs errs) h' end.

Definition fresh : sc := mk_sc [] [].

Lemma inv_fresh : inv fresh.
Proof. intros l H. exfalso. apply H. reflexivity. Qed.

Lemma run_inv h : forall st, inv st -> inv (run st h).
Proof. induction h as [|[docs errs] h IH]; intros st H; cbn [run]; [exact H|]. apply IH, refresh_exact, H. Qed.

Theorem diagnostics_track_current_errors h docs errs l :
  vget (s_view (run fresh (h ++ [(docs, errs)]))) l = errs_of l errs.
Proof.
  assert (G : forall st, inv st -> vget (s_view (run st (h ++ [(docs, errs)]))) l = errs_of l errs).
  { induction h as [|[d0 e0] h IH]; intros st H; cbn [app run].
    - apply refresh_exact, H.
    - apply IH, refresh_exact, H. }
  apply G, inv_fresh.
Qed.

(** history independence: the client of a server with any history shows what the client of a
    fresh server shows after one refresh on the same store and errors *)
Corollary diagnostics_history_independent h docs errs l :
  vget (s_view (run fresh (h ++ [(docs, errs)]))) l = vget (s_view (run fresh [(docs, errs)])) l.
Proof. rewrite (diagnostics_track_current_errors h docs errs l). symmetry. apply (diagnostics_track_current_errors [] docs errs l). Qed.

(** the pinned code: a document with an error is closed and no longer part of the program *)
Lemma pinned_keeps_stale_diagnostics :
  exists docs1 errs1 docs2 errs2 l,
    vget (apply_batch (apply_batch [] (diagnostics_pinned docs1 errs1)) (diagnostics_pinned docs2 errs2)) l <> errs_of l errs2.
Proof. exists [1%N; 2%N], [(2%N, 7%N)], [1%N], [], 2%N. vm_compute. discriminate. Qed.

Example ex_refresh_clears :
  let st1 := refresh fresh [1%N; 2%N] [(2%N, 7%N); (3%N, 8%N)] in
  let st2 := refresh st1 [1%N] [] in
  (vget (s_view st1) 2%N, vget (s_view st1) 3%N, s_reported st1) = ([7%N], [8%N], [2%N; 3%N]) /\
  (vget (s_view st2) 2%N, vget (s_view st2) 3%N, s_reported st2) = ([], [], []).
Proof. vm_compute. split; reflexivity. Qed.

(** the client shows at least one diagnostic exactly when the compilation reported an error *)
Lemma errs_of_nonempty errs : errs <> [] <-> exists l, errs_of l errs <> [].
Proof.
  split.
  - destruct errs as [|[l d] errs]; [intros H; contradiction|]. intros _. exists l. unfold errs_of. cbn [filter fst]. rewrite N.eqb_refl. cbn [map]. discriminate.
  - intros [l H] E. subst. apply H. reflexivity.
Qed.

Theorem diagnostic_iff_error st docs errs : inv st ->
  (exists l, vget (s_view (refresh st docs errs)) l <> []) <-> errs <> [].
Proof.
  intros Hinv. destruct (refresh_exact st docs errs Hinv) as [Hv _]. rewrite errs_of_nonempty.
  split; intros [l H]; exists l; [rewrite <- Hv; exact H|rewrite Hv; exact H].
Qed.
