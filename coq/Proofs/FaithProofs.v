(** Structural faithfulness of the back end (C02), on the evaluator and builder models:
    nothing declared is dropped or duplicated at the level of methods and paths.
    - a relation has, for every method, the *last* of its transfers that declares the method
      (and none if no transfer declares it);
    - the path item lists exactly the operations of the methods that have a transfer, in
      method order;
    - the paths of the document are the patterns of the relations, each once, in order of first
      appearance, and a repeated pattern keeps the item of its last relation (K3). *)
From Oal Require Import Eval Builder.
From Coq Require Import Lia.
Local Open Scope nat_scope.

Definition has_method (t : transfer) (m : nat) : bool := match t with Xfer ms _ _ _ _ _ _ _ => nth m ms false end.
Definition wf_xfer (t : transfer) : Prop := match t with Xfer ms _ _ _ _ _ _ _ => length ms = 7 end.

Lemma set_nth_length {A} n (a : A) l : length (set_nth n a l) = length l.
Proof. revert n. induction l as [|x l IH]; intros [|n]; cbn [set_nth length]; auto. Qed.

Lemma set_nth_nth {A} n (a : A) l d m : n < length l -> nth m (set_nth n a l) d = if Nat.eqb m n then a else nth m l d.
Proof.
  revert n m. induction l as [|x l IH]; intros n m Hn; [cbn in Hn; lia|].
  destruct n as [|n], m as [|m]; cbn [set_nth nth Nat.eqb]; try reflexivity. apply IH. cbn in Hn. lia.
Qed.

(** the fold of [add_xfer] over the method bits, from bit [i] on *)
Lemma add_bits_spec (t : transfer) (bs : list bool) : forall (xs : list (option transfer)) i, length xs = 7 -> i + length bs <= 7 ->
  let r := fst (fold_left (fun '(xs, i) (b : bool) => (if b then set_nth i (Some t) xs else xs, S i)) bs (xs, i)) in
  length r = 7 /\ forall m, m < 7 -> nth m r None = if andb (Nat.leb i m) (nth (m - i) bs false) then Some t else nth m xs None.
Proof.
  induction bs as [|b bs IH]; intros xs i Hx Hi; cbn [fold_left fst].
  - split; [exact Hx|]. intros m Hm. destruct (m - i); rewrite andb_false_r; reflexivity.
  - cbn [length] in Hi.
    destruct (IH (if b then set_nth i (Some t) xs else xs) (S i)) as [Hl Hs]; [destruct b; [rewrite set_nth_length|]; exact Hx|lia|].
    split; [exact Hl|]. intros m Hm. rewrite (Hs m Hm).
    destruct (Nat.leb (S i) m) eqn:E1.
    + apply Nat.leb_le in E1. assert (Nat.leb i m = true) as -> by (apply Nat.leb_le; lia).
      replace (m - i) with (S (m - S i)) by lia. cbn [nth andb].
      destruct (nth (m - S i) bs false); [reflexivity|].
      destruct b; [|reflexivity]. rewrite set_nth_nth by lia. assert (Nat.eqb m i = false) as -> by (apply Nat.eqb_neq; lia). reflexivity.
    + apply Nat.leb_gt in E1. cbn [andb]. destruct (Nat.leb i m) eqn:E2.
      * apply Nat.leb_le in E2. assert (m = i) by lia. subst m. rewrite Nat.sub_diag. cbn [nth andb].
        destruct b; [rewrite set_nth_nth by lia; rewrite Nat.eqb_refl; reflexivity|reflexivity].
      * cbn [andb]. apply Nat.leb_gt in E2. destruct b; [|reflexivity]. rewrite set_nth_nth by lia.
        assert (Nat.eqb m i = false) as -> by (apply Nat.eqb_neq; lia). reflexivity.
Qed.

Lemma add_xfer_spec xs t : length xs = 7 -> wf_xfer t ->
  length (add_xfer xs t) = 7 /\ forall m, m < 7 -> nth m (add_xfer xs t) None = if has_method t m then Some t else nth m xs None.
Proof.
  intros Hx Ht. destruct t as [ms dom rg prm d s tg i]. cbn [wf_xfer] in Ht. unfold add_xfer.
  destruct (add_bits_spec (Xfer ms dom rg prm d s tg i) ms xs 0 Hx ltac:(lia)) as [Hl Hs]. split; [exact Hl|].
  intros m Hm. rewrite (Hs m Hm). cbn [Nat.leb andb has_method]. rewrite Nat.sub_0_r. reflexivity.
Qed.

(** the last transfer of a list that declares method [m] *)
Fixpoint last_with (m : nat) (ts : list transfer) (acc : option transfer) : option transfer :=
  match ts with [] => acc | t :: ts' => last_with m ts' (if has_method t m then Some t else acc) end.

Theorem relation_slots ts : Forall wf_xfer ts -> forall xs, length xs = 7 ->
  length (fold_left add_xfer ts xs) = 7 /\
  forall m, m < 7 -> nth m (fold_left add_xfer ts xs) None = last_with m ts (nth m xs None).
Proof.
  induction 1 as [|t ts Ht _ IH]; intros xs Hx; cbn [fold_left last_with]; [auto|].
  destruct (add_xfer_spec xs t Hx Ht) as [Hl Hs]. destruct (IH (add_xfer xs t) Hl) as [Hl' Hs'].
  split; [exact Hl'|]. intros m Hm. rewrite (Hs' m Hm), (Hs m Hm). reflexivity.
Qed.

(** a method that some transfer declares gets an operation; a method no transfer declares gets none *)
Corollary declared_method_has_transfer ts m : Forall wf_xfer ts -> m < 7 ->
  (exists t, In t ts /\ has_method t m = true) <-> nth m (fold_left add_xfer ts no_xfers) None <> None.
Proof.
  intros Hw Hm. destruct (relation_slots ts Hw no_xfers eq_refl) as [_ Hs]. rewrite (Hs m Hm).
  assert (Hnone : nth m no_xfers None = None) by (do 7 (destruct m as [|m]; [reflexivity|]); lia).
  rewrite Hnone. clear Hs Hnone Hw.
  assert (G : forall acc, (acc <> None \/ exists t, In t ts /\ has_method t m = true) <-> last_with m ts acc <> None).
  { induction ts as [|t ts IH]; intros acc; cbn [last_with].
    - split; [intros [H|(t & [] & _)]; exact H|intros H; left; exact H].
    - rewrite <- IH. split.
      + intros [H|(t0 & [<-|Hin] & Ht0)].
        * left. destruct (has_method t m); [discriminate|exact H].
        * left. rewrite Ht0. discriminate.
        * right. exists t0. auto.
      + intros [H|(t0 & Hin & Ht0)].
        * destruct (has_method t m) eqn:E; [right; exists t; split; [left; reflexivity|exact E]|left; exact H].
        * right. exists t0. split; [right; exact Hin|exact Ht0]. }
  rewrite <- G. split; [intros H; right; exact H|intros [H|H]; [contradiction|exact H]].
Qed.

(** the operations of a path item: exactly the methods that have a transfer, in method order *)
Section Ops.
  Variable strs : N -> text.
  Variable table : list (rkey * schema).
  Variable names : list text.

  Fixpoint some_labels (xs : list (option transfer)) (m : nat) : list text :=
    match xs with
    | [] => []
    | None :: xs' => some_labels xs' (S m)
    | Some _ :: xs' => method_label m :: some_labels xs' (S m)
    end.

  Theorem ops_are_the_declared_methods u : forall xs m l,
    ops_json strs table names u xs m = Some l -> map fst l = some_labels xs m.
  Proof.
    induction xs as [|[t|] xs IH]; intros m l H; cbn [ops_json some_labels] in *.
    - injection H as <-. reflexivity.
    - destruct (operation_json strs table names u m t) as [oj|]; cbn [obind] in H; [|discriminate].
      destruct (ops_json strs table names u xs (S m)) as [r|] eqn:E; cbn [obind] in H; [|discriminate].
      injection H as <-. cbn [map fst]. f_equal. apply (IH (S m) r E).
    - apply IH, H.
  Qed.

  (** the keys of the paths object: the patterns of the relations, each once, in order of first appearance *)
  Fixpoint dedup (l : list text) (seen : list text) : list text :=
    match l with
    | [] => []
    | k :: l' => if in_dec (list_eq_dec N.eq_dec) k seen then dedup l' seen else k :: dedup l' (k :: seen)
    end.

  Lemma put_keys {V} k (v : V) m : map fst (put k v m) = if in_dec (list_eq_dec N.eq_dec) k (map fst m) then map fst m else map fst m ++ [k].
  Proof.
    induction m as [|[k0 v0] m IH]; cbn [put map fst]; [destruct (in_dec (list_eq_dec N.eq_dec) k []) as [[]|_]; reflexivity|].
    destruct (list_eq_dec N.eq_dec k k0) as [->|Hne]; cbn [map fst].
    - destruct (in_dec (list_eq_dec N.eq_dec) k0 (k0 :: map fst m)) as [_|Hn]; [reflexivity|exfalso; apply Hn; left; reflexivity].
    - rewrite IH. destruct (in_dec (list_eq_dec N.eq_dec) k (map fst m)) as [Hin|Hnin];
        destruct (in_dec (list_eq_dec N.eq_dec) k (k0 :: map fst m)) as [Hin'|Hnin']; try reflexivity.
      + exfalso. apply Hnin'. right. exact Hin.
      + exfalso. destruct Hin' as [E|Hin']; [exact (Hne (eq_sym E))|exact (Hnin Hin')].
  Qed.

  Lemma fold_put_keys (items : list (text * json)) : forall acc,
    map fst (fold_left (fun m kv => put (fst kv) (snd kv) m) items acc) = map fst acc ++ dedup (map fst items) (map fst acc).
  Proof.
    induction items as [|[k v] items IH]; intros acc; cbn [fold_left map fst dedup]; [rewrite app_nil_r; reflexivity|].
    rewrite IH, put_keys. destruct (in_dec (list_eq_dec N.eq_dec) k (map fst acc)) as [Hin|Hnin]; [reflexivity|].
    rewrite <- app_assoc. cbn [app]. f_equal. f_equal.
    (* the seen set is used only through membership *)
    assert (G : forall l s1 s2, (forall x, In x s1 <-> In x s2) -> dedup l s1 = dedup l s2).
    { induction l as [|x l IHl]; intros s1 s2 Hs; cbn [dedup]; [reflexivity|].
      destruct (in_dec (list_eq_dec N.eq_dec) x s1) as [H1|H1]; destruct (in_dec (list_eq_dec N.eq_dec) x s2) as [H2|H2].
      - apply IHl, Hs.
      - exfalso. apply H2, Hs, H1.
      - exfalso. apply H1, Hs, H2.
      - f_equal. apply IHl. intros y. cbn [In]. rewrite Hs. reflexivity. }
    apply G. intros x. rewrite in_app_iff. cbn [In]. tauto.
  Qed.

  Theorem path_keys_are_the_patterns rels m :
    paths_json strs table names rels = Some (JObj m) ->
    exists items, oall (map (path_item_json strs table names) rels) = Some items /\ map fst m = dedup (map fst items) [].
  Proof.
    unfold paths_json. destruct (oall (map (path_item_json strs table names) rels)) as [items|]; cbn [obind]; [|discriminate].
    intros [= <-]. exists items. split; [reflexivity|]. rewrite fold_put_keys. reflexivity.
  Qed.
End Ops.

Lemma method_bits_wf ms dom rg prm d s tg i : wf_xfer (Xfer (method_bits ms) dom rg prm d s tg i).
Proof. reflexivity. Qed.
