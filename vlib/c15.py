"""C15 — language-server answers depend only on current texts, not on edit history.
Proof: coq/Properties/C15.v. Tie: the real Workspace::{open,change,close} (in process, stored
texts read through the hook) against the extracted model on random histories, well-formed and
wild. Monitors O15: the server's texts equal an independent python client's; on the real
oal-lsp binary, diagnostics and answers after a history equal those of a fresh server handed
the final texts; the process stays alive."""
import json
import os
from . import core, lsp, lspws

ALPH = ["a", "b", " ", "é", "€", "😉", "\n", "\r\n", "x", ";", "\t"]


def u16len(s):
    return sum(2 if ord(c) > 0xFFFF else 1 for c in s)


def client_offset(text, line, col):
    """LSP meaning of a position in the client's document: python string index"""
    lines = text.split("\n")
    if line >= len(lines):
        return len(text)
    idx = sum(len(l) + 1 for l in lines[:line])
    content = lines[line]
    if content.endswith("\r"):
        content = content[:-1]
    u = 0
    for k, c in enumerate(content):
        if u >= col:
            return idx + k
        u += 2 if ord(c) > 0xFFFF else 1
    return idx + len(content)


def positions(text):
    """all valid (not mid-surrogate) positions of a text, plus a few beyond the ends"""
    out = []
    lines = text.split("\n")
    for l, content in enumerate(lines):
        if content.endswith("\r"):
            content = content[:-1]
        u = 0
        out.append((l, 0))
        for c in content:
            u += 2 if ord(c) > 0xFFFF else 1
            out.append((l, u))
    return out


def cps(s):
    return "%d %s" % (len(s), " ".join(str(ord(c)) for c in s)) if s else "0"


def rand_text(rng, n):
    return "".join(rng.choice(ALPH) for _ in range(rng.randint(0, n)))


def gen_history(rng, wild=False, nmax=12):
    """returns (events as model/harness tokens, final client texts, alive_expected)"""
    docs = {}
    toks = []
    well_formed = True
    for _ in range(rng.randint(1, nmax)):
        u = rng.randint(1, 3)
        x = rng.random()
        if x < 0.25 or not docs:
            t = rand_text(rng, 10)
            docs[u] = t
            toks.append("O %d %s" % (u, cps(t)))
        elif x < 0.35:
            docs.pop(u, None)
            toks.append("X %d" % u)
        else:
            k = rng.choice([1, 1, 1, 2, 3])
            parts = []
            cur = docs.get(u)
            for _ in range(k):
                w = rand_text(rng, 4)
                if rng.random() < 0.15:
                    parts.append("F %s" % cps(w))
                    if cur is not None:
                        cur = w
                    continue
                if cur is None:
                    parts.append("I %d %d %d %d %s" % (rng.randint(0, 2), rng.randint(0, 3), rng.randint(0, 2), rng.randint(0, 3), cps(w)))
                    continue
                ps = positions(cur)
                if wild and rng.random() < 0.5:
                    a = (rng.randint(0, 4), rng.randint(0, 8))
                    b = (rng.randint(a[0], 5), rng.randint(0, 8))
                    if b < a:
                        a, b = b, a
                    # may be mid-surrogate, beyond line ends, beyond the text: still a legal range start <= end
                else:
                    i = rng.randrange(len(ps))
                    j = rng.randrange(i, len(ps))
                    a, b = ps[i], ps[j]
                    if rng.random() < 0.1:
                        b = (b[0], b[1] + rng.randint(1, 3))      # beyond the end of the line: clamped
                    if rng.random() < 0.05:
                        b = (b[0] + 5, 0)                          # beyond the end of the text
                parts.append("I %d %d %d %d %s" % (a[0], a[1], b[0], b[1], cps(w)))
                s, e = client_offset(cur, a[0], a[1]), client_offset(cur, b[0], b[1])
                if s > e:
                    well_formed = False      # clamping made the range inverted: outside the client model
                    s, e = e, s
                # mid-surrogate columns are outside the client model (rounded up by the server)
                cur = cur[:s] + w + cur[e:]
            if u in docs:
                docs[u] = cur
            toks.append("C %d %d %s" % (u, k, " ".join(parts)))
    return "H " + " ".join(toks), docs, well_formed


def parse_docs(o):
    if not o or not o.startswith("ok"):
        return None
    out = {}
    body = o[3:].strip()
    if not body:
        return out
    for part in body.split(";"):
        u, n, c = part.split(":")
        out[int(u)] = "".join(chr(int(x)) for x in c.split(",")) if c else ""
    return out


# ---------------------------------------------------------------- real binary
FILES = {
    "main.oal": 'use "a.oal" as m;\nlet t = { \'k m.x };\nres /r on get -> <t>;\n',
    "a.oal": "// é😉\nlet x = num;\nlet y = { 'n [y] };\n",
}

EDITS = [
    ("a.oal", "é😉", "e;)"), ("a.oal", "😉", "é"), ("main.oal", "use \"a.oal\" as m;", "use \"a.oal\" as m; // prix en € du café"), ("main.oal", "€ du café", "EUR"),
    # (file, find, replace): applied as incremental changes computed by the client
    ("main.oal", "m.x", "m.y"),
    ("main.oal", "<t>", "<t> :: <status=404, m.x>"),
    ("a.oal", "num", "str"),
    ("a.oal", "let x", "let /* 😉 */ x"),
    ("main.oal", "res /r", "res /r/{ 'id num }"),
    ("a.oal", "[y]", "[y"),            # syntax error
    ("main.oal", "m.x", "m.zz"),       # not in scope
    ("a.oal", "// é😉\n", ""),
    ("main.oal", "\n", "\r\n"),
]


# edits after which the program of the folder no longer loads or compiles
BREAKING = [
    ("a.oal", "[y]", "[y"), ("a.oal", "let x", "let other = missing;\nlet x"), ("a.oal", "let y", "let x = str;\nlet y"),
    ("main.oal", "m.x", "m.zz"), ("main.oal", 'use "a.oal"', 'use "gone.oal"'), ("main.oal", "<t>", "<t"),
    ("main.oal", "let t", 'use "main.oal";\nlet t'),
]


def snapshot(srv, root, texts):
    """what a client can observe: last diagnostics per file (as sets of (range, message)) and a few answers"""
    main = "file://%s/main.oal" % root
    res = {}
    probes = []
    for name, text in sorted(texts.items()):
        uri = "file://%s/%s" % (root, name)
        for needle in ["m.", "x", "t>", "y]", "let t", "let y"]:
            k = text.find(needle)
            if k >= 0:
                line, col = lspws.pos_of(text, len(text[:k].encode("utf8")) + (2 if needle == "m." else 0))
                probes.append((uri, line, col, name, needle))
    for uri, line, col, name, needle in probes:
        for method in ("textDocument/definition", "textDocument/references", "textDocument/prepareRename"):
            extra = {"context": {"includeDeclaration": False}} if method.endswith("references") else None
            r = srv.pos_request(method, uri, line, col, extra)
            if "dead" in r or "timeout" in r:
                return None
            v = r.get("result", {"error": (r.get("error") or {}).get("code")})
            if isinstance(v, list):
                v = sorted(json.dumps(x, sort_keys=True) for x in v)
            res["%s %s@%s" % (method, name, needle)] = json.dumps(v, sort_keys=True)
    srv.drain(0.05)
    diags = {}
    for uri, ds in srv.diags.items():
        if ds:
            diags[uri] = sorted(json.dumps({"r": d["range"], "m": d["message"]}, sort_keys=True) for d in ds)
    res["diagnostics"] = json.dumps(diags, sort_keys=True)
    return res


def real_history(ctx, idx):
    rng = ctx.rng
    root = lspws.fresh_dir("c15_%d" % idx)
    lsp.write_workspace(root, FILES)
    texts = dict(FILES)
    opened = set()
    srv = lsp.Server(root)
    steps = []
    ver = {}
    try:
        srv.initialize()
        if idx % 4 == 1:
            # directed beginning: a document is edited several times, closed and opened again (its version restarts at 1)
            name = rng.choice(list(FILES))
            uri = "file://%s/%s" % (root, name)
            srv.open(uri, texts[name])
            opened.add(name)
            ver[name] = 1
            steps.append("open " + name)
            for k in range(3):
                ver[name] += 1
                srv.change(uri, [{"range": lspws.rng_of(texts[name], 0, 0), "text": "// v%d\n" % k}], version=ver[name])
                steps.append("edit %s: %r -> %r" % (name, "", "// v%d\n" % k))
                texts[name] = "// v%d\n" % k + texts[name]
            srv.close_doc(uri)
            opened.discard(name)
            texts[name] = FILES[name]
            ver.pop(name, None)
            steps.append("close " + name)
            srv.open(uri, texts[name])
            opened.add(name)
            ver[name] = 1
            steps.append("open " + name)
            cands = [e for e in EDITS if e[0] == name and e[1] in texts[name]]
            if cands:
                e = rng.choice(cands)
                t = texts[name]
                pos = t.find(e[1])
                a = len(t[:pos].encode("utf8"))
                ver[name] = 2
                srv.change(uri, [{"range": lspws.rng_of(t, a, a + len(e[1].encode("utf8"))), "text": e[2]}], version=2)
                texts[name] = t[:pos] + e[2] + t[pos + len(e[1]):]
                steps.append("edit %s: %r -> %r" % (name, e[1], e[2]))
        for _ in range(rng.randint(2, 9 if ctx.thorough else 6)):
            x = rng.random()
            name = rng.choice(list(FILES))
            uri = "file://%s/%s" % (root, name)
            if name not in opened or x < 0.15:
                srv.open(uri, texts[name])
                opened.add(name)
                ver[name] = 1             # editors restart the version of a document they open again
                steps.append("open " + name)
            elif x < 0.25:
                srv.close_doc(uri)
                opened.discard(name)
                texts[name] = FILES[name]          # a closed document is read from disk again
                steps.append("close " + name)
            else:
                cands = [e for e in EDITS if e[0] == name and e[1] in texts[name]]
                if not cands:
                    continue
                k = rng.choice([1, 1, 2])
                changes = []
                for e in rng.sample(cands, min(k, len(cands))):
                    t = texts[name]
                    pos = t.find(e[1])
                    if pos < 0:
                        continue
                    s = len(t[:pos].encode("utf8"))
                    en = s + len(e[1].encode("utf8"))
                    ch = {"range": lspws.rng_of(t, s, en), "text": e[2]}
                    if rng.random() < 0.6:
                        ch["rangeLength"] = u16len(e[1])      # the redundant (deprecated) length many clients still send
                    changes.append(ch)
                    texts[name] = t[:pos] + e[2] + t[pos + len(e[1]):]
                    steps.append("edit %s: %r -> %r" % (name, e[1], e[2]))
                if changes:
                    ver[name] = ver.get(name, 1) + 1
                    srv.change(uri, changes, version=ver[name])
            if rng.random() < 0.3:
                srv.pos_request("textDocument/definition", "file://%s/main.oal" % root, 0, 0)
                steps.append("request")
        if idx % 2 == 0:
            # directed ending: the unsaved buffer of a document breaks the program, the server
            # shows it, and closing that document is the last notification
            name = rng.choice(list(FILES))
            uri = "file://%s/%s" % (root, name)
            if name not in opened:
                srv.open(uri, texts[name])
                opened.add(name)
                steps.append("open " + name)
            bad = [e for e in BREAKING if e[0] == name and e[1] in texts[name]]
            if bad:
                e = rng.choice(bad)
                t = texts[name]
                pos = t.find(e[1])
                a = len(t[:pos].encode("utf8"))
                srv.change(uri, [{"range": lspws.rng_of(t, a, a + len(e[1].encode("utf8"))), "text": e[2]}])
                steps.append("edit %s: %r -> %r" % (name, e[1], e[2]))
                if rng.random() < 0.85:
                    srv.pos_request("textDocument/definition", "file://%s/main.oal" % root, 0, 0)
                    srv.drain(0.05)
                    steps.append("request")
                if idx % 4 == 2:
                    # ... or repaired by the inverse edit instead of being closed
                    t2 = t[:pos] + e[2] + t[pos + len(e[1]):]
                    b = len(t2[:pos].encode("utf8"))
                    srv.change(uri, [{"range": lspws.rng_of(t2, b, b + len(e[2].encode("utf8"))), "text": e[1]}])
                    steps.append("edit %s: %r -> %r" % (name, e[2], e[1]))
                else:
                    srv.close_doc(uri)
                    opened.discard(name)
                    texts[name] = FILES[name]
                    steps.append("close " + name)
        got = snapshot(srv, root, texts)
        alive = srv.alive()
    finally:
        srv.stop()
    inp = {"steps": steps, "final_texts": texts, "opened": sorted(opened)}
    compare_with_fresh(ctx, idx, inp, got, alive, srv, root, texts, opened)


def compare_with_fresh(ctx, idx, inp, got, alive, srv, root, texts, opened):
    ctx.cov["evaluations"] += 1
    if got is None or not alive:
        ctx.violation("the language server died or stopped answering during a history of notifications", inp, "alive", "".join(srv.stderr[-4:])[:400])
        return
    # fresh server handed the final texts
    root2 = lspws.fresh_dir("c15_%s_fresh" % idx)
    lsp.write_workspace(root2, FILES)
    srv2 = lsp.Server(root2)
    try:
        srv2.initialize()
        for name in sorted(opened):
            srv2.open("file://%s/%s" % (root2, name), texts[name])
        want = snapshot(srv2, root2, texts)
    finally:
        srv2.stop()
    if want is None:
        ctx.broken.append("fresh server did not answer")
        return
    norm = lambda d, r: {k: v.replace(r, "<root>") for k, v in d.items()}
    a, b = norm(got, root), norm(want, root2)
    if a != b:
        diff = [k for k in sorted(set(a) | set(b)) if a.get(k) != b.get(k)]
        ctx.violation("after a history of notifications the server's diagnostics / answers differ from those of a fresh server handed the final texts",
                      inp, {k: b.get(k) for k in diff[:3]}, {k: a.get(k) for k in diff[:3]})
    else:
        ctx.count("real_histories_equal")
        ctx.cov["traces_validated_against_impl"] += 1


def replay_steps(ctx, steps):
    """re-run the recorded steps of a real history (open / close / edit / request) and compare with a fresh server"""
    import ast
    import re
    root = lspws.fresh_dir("c15_replay")
    lsp.write_workspace(root, FILES)
    texts = dict(FILES)
    opened = set()
    srv = lsp.Server(root)
    try:
        srv.initialize()
        for st in steps:
            m = re.match(r"edit (\S+): (.*) -> (.*)$", st, flags=re.S)
            if st.startswith("open "):
                name = st[5:]
                srv.open("file://%s/%s" % (root, name), texts[name])
                opened.add(name)
            elif st.startswith("close "):
                name = st[6:]
                srv.close_doc("file://%s/%s" % (root, name))
                opened.discard(name)
                texts[name] = FILES[name]
            elif st == "request":
                srv.pos_request("textDocument/definition", "file://%s/main.oal" % root, 0, 0)
                srv.drain(0.05)
            elif m:
                name, old, new = m.group(1), ast.literal_eval(m.group(2)), ast.literal_eval(m.group(3))
                t = texts[name]
                pos = t.find(old)
                if pos < 0:
                    continue
                a = len(t[:pos].encode("utf8"))
                srv.change("file://%s/%s" % (root, name), [{"range": lspws.rng_of(t, a, a + len(old.encode("utf8"))), "text": new}])
                texts[name] = t[:pos] + new + t[pos + len(old):]
        got = snapshot(srv, root, texts)
        alive = srv.alive()
    finally:
        srv.stop()
    compare_with_fresh(ctx, "replay", {"steps": steps, "final_texts": texts, "opened": sorted(opened)}, got, alive, srv, root, texts, opened)


DIAG_TEXTS = {
    "main.oal": ['use "lib.oal";\nres /a on get -> <t>;\n', 'use "lib.oal";\nres /a on get -> <zz>;\n', 'res /a on get -> <str>;\n',
                 'use "lib.oal";\nres /a on get -> <t> ;;\n', 'use "lib.oal";\nuse "other.oal";\nres /a on get -> <t> :: <status=404, o>;\n',
                 'use "gone.oal";\nres / on get -> <>;\n',
                 # the program loads and fails in evaluation: its diagnostics must survive events on unrelated documents
                 'use "lib.oal";\nres /a on get -> <status=999, t>;\n', 'use "lib.oal";\nres /a on get -> <status=999, t>;\n'],
    "lib.oal": ["let t = { 'n num };\n", "let t = { 'n nope };\n", "let t = { 'n num }\n", "let t = <> & {};\n"],
    "other.oal": ["let o = str;\n", "let o = ;\n", "let o = q;\n"],
}


def gen_diag_history(rng):
    """events on a three-file folder: main imports lib (and sometimes other); texts with and without errors"""
    disk = {n: ts[0] for n, ts in DIAG_TEXTS.items()}
    if rng.random() < 0.35:
        # a document with an error leaves the program and the store between two refreshes
        x = rng.choice(["lib.oal", "other.oal"])
        imp = rng.choice([0, 1, 3]) if x == "lib.oal" else 4
        out = [2] if x == "lib.oal" else [0, 1, 2, 3]
        events = [{"open": "main.oal", "text": DIAG_TEXTS["main.oal"][imp]}, {"open": x, "text": rng.choice(DIAG_TEXTS[x][1:])}]
        rng.shuffle(events)
        events.append({"refresh": True})
        tail = [{"close": x}, {"change": "main.oal", "text": DIAG_TEXTS["main.oal"][rng.choice(out)]}]
        rng.shuffle(tail)
        if rng.random() < 0.3:
            tail.insert(1, {"refresh": True})
        events += tail + [{"refresh": True}]
        return disk, events, final_open(events)
    if rng.random() < 0.3:
        disk["lib.oal"] = rng.choice(DIAG_TEXTS["lib.oal"])
    events = []
    opened = {}
    for _ in range(rng.randint(2, 9)):
        n = rng.choice(list(DIAG_TEXTS))
        if n in opened and rng.random() < 0.35:
            events.append({"close": n})
            del opened[n]
        elif n in opened:
            t = rng.choice(DIAG_TEXTS[n])
            events.append({"change": n, "text": t})
            opened[n] = t
        else:
            t = rng.choice(DIAG_TEXTS[n])
            events.append({"open": n, "text": t})
            opened[n] = t
        if rng.random() < 0.5:          # the server refreshes when idle: several notifications may precede a refresh
            events.append({"refresh": True})
    events.append({"refresh": True})
    return disk, events, opened


def diag_view(steps):
    """the client: a notification replaces the diagnostics of its document"""
    view = {}
    for st in steps:
        if isinstance(st.get("pubs"), dict):
            for k, v in st["pubs"].items():
                view[k] = v
    return {k: v for k, v in view.items() if v}


def final_open(events):
    opened = {}
    for ev in events:
        if "open" in ev:
            opened[ev["open"]] = ev["text"]
        elif "change" in ev and ev["change"] in opened:
            opened[ev["change"]] = ev["text"]
        elif "close" in ev:
            opened.pop(ev["close"], None)
    return opened


def FIXED_DIAG_HISTORIES():
    """directed histories that every run plays: a program that loads but fails in evaluation, then events on documents inside
    and outside the program; an error that comes and goes; a closed document whose import is dropped in the same batch"""
    disk = {n: ts[0] for n, ts in DIAG_TEXTS.items()}
    ev_fail = DIAG_TEXTS["main.oal"][6]
    return [
        (disk, [{"open": "main.oal", "text": ev_fail}, {"refresh": True}, {"open": "other.oal", "text": DIAG_TEXTS["other.oal"][0]}, {"refresh": True}]),
        (disk, [{"open": "main.oal", "text": ev_fail}, {"refresh": True}, {"open": "other.oal", "text": DIAG_TEXTS["other.oal"][1]}, {"refresh": True},
                {"close": "other.oal"}, {"refresh": True}]),
        (disk, [{"open": "main.oal", "text": ev_fail}, {"refresh": True}, {"open": "lib.oal", "text": DIAG_TEXTS["lib.oal"][0]}, {"refresh": True},
                {"change": "main.oal", "text": DIAG_TEXTS["main.oal"][0]}, {"refresh": True}]),
        (disk, [{"open": "lib.oal", "text": DIAG_TEXTS["lib.oal"][1]}, {"open": "main.oal", "text": DIAG_TEXTS["main.oal"][0]}, {"refresh": True},
                {"change": "main.oal", "text": DIAG_TEXTS["main.oal"][2]}, {"close": "lib.oal"}, {"refresh": True}]),
        (disk, [{"open": "main.oal", "text": DIAG_TEXTS["main.oal"][1]}, {"refresh": True}, {"change": "main.oal", "text": DIAG_TEXTS["main.oal"][0]},
                {"refresh": True}, {"change": "main.oal", "text": DIAG_TEXTS["main.oal"][3]}, {"refresh": True}]),
    ]


def diag_tie(ctx, fixed=None):
    """Model/Diag.v vs Workspace::diagnostics after every event of a history (same published batch, as a map),
    and the client's final view vs the one of a fresh workspace handed the final texts"""
    n = 360 if ctx.thorough else 30
    reqs, metas = [], []
    todo = fixed if fixed is not None else FIXED_DIAG_HISTORIES() + [gen_diag_history(ctx.rng)[:2] for _ in range(n)]
    for i, (disk, events) in enumerate(todo):
        opened = final_open(events)
        for tag, evs in (("h", events), ("f", [{"open": k, "text": t} for k, t in opened.items()] + [{"refresh": True}])):
            root = lspws.fresh_dir("c15_diag_%d_%s" % (i, tag))
            lsp.write_workspace(root, disk)
            reqs.append(json.dumps({"root": root, "events": evs}))
        metas.append({"disk": disk, "events": events})
    outs = core.run_stateless(core.IMPL, "lspdiag", reqs)
    # messages quote absolute locators: make them relative to the folder
    outs = [o.replace(json.loads(rq)["root"], "<root>") if isinstance(o, str) else o for o, rq in zip(outs, reqs)]
    lines, where = [], []
    results = []
    for j, o in enumerate(outs):
        try:
            r = json.loads(o)
        except Exception:
            r = {"status": str(o)[:80]}
        results.append(r)
    for i, meta in enumerate(metas):
        rh, rf = results[2 * i], results[2 * i + 1]
        ctx.cov["evaluations"] += 1
        if rh.get("status") != "ok" or rf.get("status") != "ok":
            ctx.violation("the workspace dies while refreshing diagnostics", meta, "ok", [rh.get("status"), rf.get("status"), str(rh.get("msg"))[:200]])
            continue
        vh, vf = diag_view(rh["steps"]), diag_view(rf["steps"])
        if vh != vf:
            ctx.violation("after a history of events the diagnostics shown to the client differ from those of a fresh server handed the final texts "
                          "(stale diagnostics not cleared, or current ones missing)", meta, vf, vh)
            continue
        if any(st["pubs"] and any(not v for v in st["pubs"].values()) for st in rh["steps"]) and len(rh["steps"]) > 2:
            ctx.count("diag_histories_with_clearing")
        # the model, step by step
        names, dids = {}, {}
        reported = []
        for k, st in enumerate(rh["steps"]):
            if not isinstance(st.get("pubs"), dict) or "error" in st["pubs"]:
                break
            for nme in list(st["docs"]) + list(st["pubs"]):
                names.setdefault(nme, len(names) + 1)
            errs = []
            for nme, ds in st["pubs"].items():
                for d in ds:
                    dids.setdefault((nme, d), len(dids) + 1)
                    errs.append((names[nme], dids[(nme, d)]))
            lines.append("D %s | R %s | E %s" % (" ".join(str(names[x]) for x in st["docs"]), " ".join(str(x) for x in reported),
                                                 " ".join("%d %d" % e for e in errs)))
            want = {names[nme]: [dids[(nme, d)] for d in ds] for nme, ds in st["pubs"].items()}
            reported = sorted(names[nme] for nme, ds in st["pubs"].items() if ds)
            where.append((i, k, want, reported))
    mouts = core.run_stateless(core.RUNNER, "diag", lines) if lines else []
    for (i, k, want, rep), mo in zip(where, mouts):
        if mo is None or mo == "SKIPPED":
            continue
        try:
            b, r = mo.split("|")
            got = {}
            for ent in b.strip().split(";"):
                if ent:
                    l, ds = ent.split("=")
                    got[int(l)] = [int(x) for x in ds.split(",") if x]
            grep = sorted(int(x) for x in r.split())
        except Exception:
            ctx.broken.append("diagnostics tie: unreadable model output %r" % (mo,))
            continue
        if got != want or grep != rep:
            ctx.count("diag_tie_disagreements")
            if len(ctx.broken) < 10:
                ctx.broken.append("diagnostics tie: Model/Diag.v and Workspace::diagnostics publish different batches at step %d of %s: model %s vs code %s"
                                  % (k, json.dumps(metas[i])[:900], got, want))
        else:
            ctx.count("diag_tie_steps_agree")
            ctx.cov["traces_validated_against_impl"] += 1


def check(ctx):
    ctx.proof = core.proof_stage("C15", thorough=ctx.thorough)
    ok, out = core.ensure_runner()
    if not ok:
        ctx.broken.append("runner build failed: " + out[-300:])
    ok, out = core.ensure_harness()
    ok2, out2 = core.ensure_repo_bins()
    if not ok or not ok2:
        ctx.broken.append("build against /repo failed: " + (out + out2)[-600:])
        return core.finish(ctx)
    if ctx.replay:
        v = json.load(open(ctx.replay))
        if "events" in v["input"]:
            diag_tie(ctx, fixed=[(v["input"]["disk"], v["input"]["events"])])
        if "steps" in v["input"]:
            replay_steps(ctx, v["input"]["steps"])
        if "history" in v["input"]:
            o = core.run_stateless(core.IMPL, "lspdoc", [v["input"]["history"]])[0]
            core.log("impl: " + str(o))
            if o == "dead" or o is None or o.startswith("CRASH"):
                ctx.violation("the document store dies on this history", v["input"], "alive", o)
        ctx.cov["evaluations"] = 1
        return core.finish(ctx)
    # in-process histories
    n = 60000 if ctx.thorough else 4000
    hs = [gen_history(ctx.rng, wild=(i % 3 == 2)) for i in range(n)]
    corpus = ["H O 1 4 128521 97 98 99 C 1 1 I 0 1 0 3 1 122",                       # F5
              "H O 1 2 13 10 C 1 1 I 0 1 0 1 1 120",
              "H O 1 3 97 10 98 C 1 2 I 0 0 0 0 2 35 10 I 2 0 2 0 1 99"]            # batched changes, the first shifts the second
    lines = corpus + [h[0] for h in hs]
    impl = core.run_stateless(core.IMPL, "lspdoc", lines)
    model = core.run_stateless(core.RUNNER, "lspdoc", lines) if not ctx.broken else None
    for i, l in enumerate(lines):
        ctx.cov["evaluations"] += 1
        o = impl[i]
        if model is not None and model[i] != o:
            ctx.count("tie_disagreements")
            if len(ctx.broken) < 20:
                ctx.broken.append("L9 store disagreement: %s impl=%s model=%s" % (l[:200], str(o)[:120], str(model[i])[:120]))
        elif model is not None:
            ctx.cov["traces_validated_against_impl"] += 1
        if i >= len(corpus):
            _, docs, wf = hs[i - len(corpus)]
            wild = (i - len(corpus)) % 3 == 2
            if o is None or o == "dead" or o.startswith("CRASH"):
                ctx.violation("the server's document store dies on a history whose ranges all have start <= end", {"history": l}, "alive", o)
                continue
            if not wild and wf:
                got = parse_docs(o)
                if got != docs:
                    ctx.violation("the server's copy of an open document differs from the client's after a history of changes", {"history": l},
                                  {k: [ord(c) for c in v] for k, v in docs.items()}, o)
                    continue
                if any(ord(c) > 0xFFFF for t in docs.values() for c in t) or any("\r\n" in t for t in docs.values()):
                    ctx.count("nontrivial")
            ctx.count("wild" if wild else "well_formed")
        if i in (3, 10, 100):
            ctx.sample({"history": l[:300], "impl": str(o)[:200]})
    # diagnostics bookkeeping: model = code, history = fresh
    diag_tie(ctx)
    # real binary
    for k in range(120 if ctx.thorough else 14):
        real_history(ctx, k)
        if len(ctx.violations) > 3:
            break
    ctx.cov["distinct_nontrivial"] = ctx.cov["distribution"].get("nontrivial", 0)
    ctx.cov["rule"] = ("in process: random histories of <= 12 open/change/close events on 3 documents over {a, b, space, e-acute, euro, winking face, LF, CRLF, x, ;}, "
                       "1-3 changes per notification, ranges drawn from all valid UTF-16 positions (+ beyond line/text ends); every third history wild "
                       "(arbitrary positions incl. inside surrogate pairs); stored texts compared with the extracted model (all) and with a python client (well-formed). "
                       "Real binary: histories of 2-9 notifications with incremental edits on a 2-file workspace, interleaved requests; diagnostics and "
                       "definition/references/prepareRename answers compared with a fresh server handed the final texts. distinct_nontrivial = well-formed "
                       "histories ending with astral characters or CRLF in a document")
    ctx.assumptions = ["the 1 s idle refresh is not waited for: a request forces the refresh (requests refresh first)",
                       "ranges with start after end are a protocol violation and are not generated"]
    return core.finish(ctx)
