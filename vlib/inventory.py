"""Source inventories regenerated from /repo on every run (DESIGN 4.3): they only list,
they never translate. A difference from the committed baseline is a broken correspondence."""
import json
import os
import re
from . import core

COMPILE_PATH = ["oal-model/src", "oal-syntax/src", "oal-compiler/src", "oal-openapi/src"]
ALL_CRATES = COMPILE_PATH + ["oal-client/src", "oal-wasm/src"]


def source_files(dirs):
    out = []
    for d in dirs:
        root = os.path.join(core.REPO, d)
        for dp, _, fs in os.walk(root):
            for f in sorted(fs):
                if f.endswith(".rs") and not f.endswith("_tests.rs") and f != "tests.rs":
                    out.append(os.path.join(dp, f))
    return sorted(out)


def strip_tests(txt):
    """drop `#[test] fn ... { ... }` bodies and `#[cfg(test)]` items (brace matching)"""
    out = []
    i = 0
    lines = txt.split("\n")
    while i < len(lines):
        l = lines[i]
        if re.match(r"\s*#\[(test|cfg\(test\))\]", l):
            # skip the attribute and the item that follows up to the matching brace or ';'
            i += 1
            depth = 0
            started = False
            while i < len(lines):
                depth += lines[i].count("{") - lines[i].count("}")
                if "{" in lines[i]:
                    started = True
                done = (started and depth <= 0) or (not started and lines[i].rstrip().endswith(";"))
                i += 1
                if done:
                    break
            continue
        out.append(l)
        i += 1
    return "\n".join(out)


UNORDERED = re.compile(r"\b(HashMap|HashSet)\b")
DENY = re.compile(r"SystemTime|Instant::|\brand::|thread::spawn|static\s+mut|thread_local!|\bAtomic[A-Z]\w*|lazy_static|OnceCell|OnceLock|\{:p\}|getrandom|RandomState")


def unordered_inventory():
    inv = {}
    for f in source_files(COMPILE_PATH):
        txt = strip_tests(open(f).read())
        rows = []
        for l in txt.split("\n"):
            s = l.strip()
            if s.startswith("//"):
                continue
            if s.startswith("use ") and not DENY.search(s):
                continue            # an import creates no collection: its uses are listed on their own lines
            if UNORDERED.search(s) or DENY.search(s):
                rows.append(re.sub(r"\s+", " ", s))
        if rows:
            inv[os.path.relpath(f, core.REPO)] = rows
    return inv


def panic_inventory(dirs=None):
    pat = re.compile(r"panic!|unreachable!|\.expect\(|\.unwrap\(\)|assert!|assert_eq!|unimplemented!|todo!|new_unchecked")
    inv = {}
    for f in source_files(dirs or ALL_CRATES):
        txt = strip_tests(open(f).read())
        n = 0
        for l in txt.split("\n"):
            s = l.strip()
            if s.startswith("//"):
                continue
            n += len(pat.findall(s))
        if n:
            inv[os.path.relpath(f, core.REPO)] = n
    return inv


def compare(name, current):
    path = os.path.join(core.VERIF, "inventory", name + ".json")
    if not os.path.exists(path):
        return ["inventory baseline %s is missing" % name]
    base = json.load(open(path))
    diffs = []
    for f in sorted(set(base) | set(current)):
        if base.get(f) != current.get(f):
            # only what is new needs looking at: a site or a collection that went away cannot break the property
            if isinstance(current.get(f), list) or isinstance(base.get(f), list):
                b, c = base.get(f) or [], current.get(f) or []
                added = [x for x in c if x not in b]
                removed = [x for x in b if x not in c]
                if added:
                    diffs.append("%s: %s: added %s removed %s" % (name, f, added[:3], removed[:3]))
            elif isinstance(current.get(f), int) and isinstance(base.get(f, 0), int):
                if current.get(f) > base.get(f, 0):
                    diffs.append("%s: %s: %s -> %s" % (name, f, base.get(f), current.get(f)))
            elif current.get(f) is not None:
                diffs.append("%s: %s: %s -> %s" % (name, f, base.get(f), current.get(f)))
    return diffs


if __name__ == "__main__":
    os.makedirs(os.path.join(core.VERIF, "inventory"), exist_ok=True)
    json.dump(unordered_inventory(), open(os.path.join(core.VERIF, "inventory", "unordered.json"), "w"), indent=1)
    json.dump(panic_inventory(), open(os.path.join(core.VERIF, "inventory", "panics.json"), "w"), indent=1)
    print(json.dumps(unordered_inventory(), indent=1))
    print(json.dumps(panic_inventory(), indent=1))
