#!/bin/sh
# all stored seeded changes against their own property's quick check
cd /verif
for d in seeded/C*/m*; do
  pid=$(echo $d | cut -d/ -f2)
  out=$(tools/try_mutant.sh /verif/$d/patch.diff $pid 2>&1)
  rc=$(echo "$out" | grep -E "^== $pid rc=" | sed 's/.*rc=//')
  nf=$(echo "$out" | grep -c "no-failing-input-found")
  v=$(echo "$out" | grep -c "VIOLATION")
  echo "$d rc=$rc violations=$v nofail=$nf"
done
git -C /repo status --short | head -3
echo DONE
