(** Termination of the evaluator model: for a stratified first-order program (Model/Strat.v:
    what the recursion check guarantees, re-checked on the transcription of every accepted
    program by the tie) an explicit amount of fuel suffices, for every expression, state and
    annotation: the evaluation never ends in [Fuel]. The measure is lexicographic: the number
    of memoised (cut) declarations not yet in the reference table, the rank of the
    declarations the expression enters, the size of the expression. *)
From Oal Require Import Eval Strat ClosureProofs.
From Coq Require Import Lia Arith.
Local Open Scope nat_scope.

Lemma bind_nf {A B} (r : res A) (k : A -> res B) :
  r <> Fuel -> (forall x, r = Ok x -> k x <> Fuel) -> bind r k <> Fuel.
Proof. intros Hr Hk. destruct r as [x|x|p|]; cbn [bind]; try discriminate; [apply Hk; reflexivity|contradiction]. Qed.

Lemma nf_pure {A B} (c : res A) (k : A -> res B) :
  c <> Fuel -> (forall x, c = Ok x -> k x <> Fuel) -> bind c k <> Fuel.
Proof. apply bind_nf. Qed.

(** the casts and the other pure steps never run out of fuel (they have none) *)
Lemma compose_nf anns : forall acc, compose anns acc <> Fuel.
Proof. induction anns as [|[a|] anns IH]; intros acc; cbn [compose]; [discriminate|apply IH|discriminate]. Qed.
Lemma cast_schema_nf va : cast_schema va <> Fuel.
Proof. destruct va as [v a]. destruct v; cbn; discriminate. Qed.
Lemma cast_content_nf va : cast_content va <> Fuel.
Proof.
  destruct va as [v a]. unfold cast_content. cbn [fst]. destruct v; cbn [is_schema_like]; try discriminate;
    (apply bind_nf; [apply cast_schema_nf|discriminate]).
Qed.
Lemma cast_ranges_nf va : cast_ranges va <> Fuel.
Proof.
  destruct va as [v a]. unfold cast_ranges. cbn [fst]. destruct v; cbn [is_content_like is_schema_like]; try discriminate;
    (apply bind_nf; [apply cast_content_nf|discriminate]).
Qed.
Lemma cast_string_nf : forall v, cast_string v <> Fuel.
Proof. fix IH 1. intros v. destruct v; cbn [cast_string]; try discriminate. apply IH. Qed.
Lemma cast_property_nf : forall v, cast_property v <> Fuel.
Proof. fix IH 1. intros v. destruct v; cbn [cast_property]; try discriminate. apply IH. Qed.
Lemma cast_status_nf : forall v, cast_http_status v <> Fuel.
Proof. fix IH 1. intros v. destruct v; cbn [cast_http_status]; try discriminate; try apply IH. destruct (N.leb 100 n && N.leb n 599); discriminate. Qed.
Lemma cast_object_nf : forall v, cast_object v <> Fuel.
Proof. fix IH 1. intros v. destruct v; cbn [cast_object]; try discriminate. apply IH. Qed.
Lemma cast_transfer_nf : forall v, cast_transfer v <> Fuel.
Proof. fix IH 1. intros v. destruct v; cbn [cast_transfer]; try discriminate. apply IH. Qed.
Lemma cast_uri_nf : forall v, cast_uri v <> Fuel.
Proof. fix IH 1. intros v. destruct v; cbn [cast_uri]; try discriminate; [destruct r; discriminate|apply IH]. Qed.
Lemma cast_relation_nf : forall v, cast_relation v <> Fuel.
Proof. fix IH 1. intros v. destruct v; cbn [cast_relation]; try discriminate. apply IH. Qed.
Lemma cast_lambda_nf : forall v, cast_lambda v <> Fuel.
Proof. fix IH 1. intros v. destruct v; cbn [cast_lambda]; try discriminate. apply IH. Qed.
Lemma uri_append_nf l r : uri_append l r <> Fuel.
Proof. destruct l, r. unfold uri_append. destruct (rev path); discriminate. Qed.
Lemma prim_value_nf p a : prim_value p a <> Fuel.
Proof. destruct p as [|[[[|[]|]|[[]|[]|]|]|[[|[]|]|[[]|[]|]|]|]]; cbn; discriminate. Qed.

(** sizes and ranks of list members *)
Lemma size_in {A} (f : A -> nat) l x : In x l -> f x <= fold_right (fun y acc => f y + acc) 0 l.
Proof. induction l as [|y l IH]; intros []; cbn [fold_right]; [subst; lia|specialize (IH H); lia]. Qed.
Lemma max_in {A} (f : A -> nat) l x : In x l -> f x <= fold_right (fun y acc => Nat.max (f y) acc) 0 l.
Proof. induction l as [|y l IH]; intros []; cbn [fold_right]; [subst; lia|specialize (IH H); lia]. Qed.

Section Term.
  Variable P : prog.
  Variable rank : N -> N -> nat.
  Variables R Z : nat.
  Hypothesis Hdecl : forall m i d, get_decl P m i = Some d -> decl_sokb P rank R Z m i d = true.

  Notation size := (@Strat.size).
  Notation erank := (Strat.erank P rank).
  Notation fo := (Strat.fo P).

  Definition cutkeys : list rkey :=
    flat_map (fun mds : N * list decl =>
                flat_map (fun idd : N * decl => if cutd (snd idd) then [key_of (snd idd) (fst mds) (fst idd)] else [])
                         (enum (snd mds)))
             (enum P).
  Definition inb (k : rkey) (r : list (rkey * option aval)) : bool := existsb (fun kv => rkey_eqb k (fst kv)) r.
  Definition U (s : st) : nat := length (filter (fun k => negb (inb k (refs s))) cutkeys).
  Definition B (u r z : nat) : nat := u * (S R * S Z) + r * S Z + z.

  Lemma inb_dom k r : inb k r = true <-> dom r k.
  Proof.
    unfold inb, dom. rewrite existsb_exists. split.
    - intros ([k' x] & Hin & Hk). cbn [fst] in Hk. apply rkey_eqb_eq in Hk. subst. apply (in_map fst) in Hin. exact Hin.
    - intros H. apply in_map_iff in H as ([k' x] & Hk & Hin). cbn [fst] in Hk. subst. exists (k, x). split; [exact Hin|apply rkey_eqb_refl].
  Qed.

  Lemma filter_len_mono {A} (p q : A -> bool) l : (forall x, q x = true -> p x = true) -> length (filter q l) <= length (filter p l).
  Proof.
    intros H. induction l as [|x l IH]; cbn [filter]; [lia|].
    destruct (q x) eqn:Eq; [rewrite (H x Eq); cbn [length]; lia|destruct (p x); cbn [length]; lia].
  Qed.

  Lemma filter_len_strict {A} (p q : A -> bool) l x :
    (forall y, q y = true -> p y = true) -> In x l -> p x = true -> q x = false -> length (filter q l) < length (filter p l).
  Proof.
    intros H. induction l as [|y l IH]; intros Hin Hp Hq; [destruct Hin|].
    cbn [filter]. destruct Hin as [->|Hin].
    - rewrite Hp, Hq. cbn [length]. pose proof (filter_len_mono p q l H). lia.
    - specialize (IH Hin Hp Hq). destruct (q y) eqn:Eq; [rewrite (H y Eq); cbn [length]; lia|destruct (p y); cbn [length]; lia].
  Qed.

  Lemma U_mono s s' : (forall k, dom (refs s) k -> dom (refs s') k) -> U s' <= U s.
  Proof.
    intros H. unfold U. apply filter_len_mono. intros k Hk. apply negb_true_iff in Hk. apply negb_true_iff.
    destruct (inb k (refs s)) eqn:E; [|reflexivity]. apply inb_dom, H, inb_dom in E. congruence.
  Qed.

  Lemma U_dec s s' key : (forall k, dom (refs s) k -> dom (refs s') k) -> In key cutkeys ->
    ~ dom (refs s) key -> dom (refs s') key -> U s' < U s.
  Proof.
    intros H Hin Hn Hd. unfold U. apply (filter_len_strict _ _ cutkeys key); [|exact Hin| |].
    - intros k Hk. apply negb_true_iff in Hk. apply negb_true_iff.
      destruct (inb k (refs s)) eqn:E; [|reflexivity]. apply inb_dom, H, inb_dom in E. congruence.
    - apply negb_true_iff. destruct (inb key (refs s)) eqn:E; [apply inb_dom in E; contradiction|reflexivity].
    - apply negb_false_iff. apply inb_dom, Hd.
  Qed.

  Lemma enum_in {A} (l : list A) n x : nth_error l n = Some x -> In (N.of_nat n, x) (enum l).
  Proof.
    unfold enum. intros H.
    assert (Hg : forall k, nth_error l n = Some x -> In (N.of_nat (k + n), x) (combine (map N.of_nat (List.seq k (length l))) l)).
    { clear H. revert n. induction l as [|y l IH]; intros n k Hn; [destruct n; discriminate|].
      cbn [length List.seq map combine]. destruct n as [|n]; cbn [nth_error] in Hn.
      - injection Hn as ->. left. rewrite Nat.add_0_r. reflexivity.
      - right. replace (k + S n) with (S k + n) by lia. apply IH, Hn. }
    apply (Hg 0 H).
  Qed.

  Lemma cutkeys_in m i d : get_decl P m i = Some d -> cutd d = true -> In (key_of d m i) cutkeys.
  Proof.
    unfold get_decl, cutkeys. intros Hd Hc.
    destruct (nth_error P (N.to_nat m)) as [ds|] eqn:Hm; [|discriminate].
    apply in_flat_map. exists (m, ds). split; [rewrite <- (N2Nat.id m); apply enum_in, Hm|].
    cbn [fst snd]. apply in_flat_map. exists (i, d). split; [rewrite <- (N2Nat.id i); apply enum_in, Hd|].
    cbn [fst snd]. rewrite Hc. left. reflexivity.
  Qed.

  (** the measure decreases *)
  Lemma B_size u u' r r' z z' : u' <= u -> r' <= r -> z' < z -> B u' r' z' < B u r z.
  Proof.
    unfold B. intros Hu Hr Hz.
    pose proof (Nat.mul_le_mono_r u' u (S R * S Z) Hu). pose proof (Nat.mul_le_mono_r r' r (S Z) Hr). lia.
  Qed.
  Lemma B_rank u u' r r' z z' : u' <= u -> r' < r -> z' <= Z -> B u' r' z' < B u r z.
  Proof.
    unfold B. intros Hu Hr Hz.
    pose proof (Nat.mul_le_mono_r u' u (S R * S Z) Hu).
    assert (S r' * S Z <= r * S Z) by (apply Nat.mul_le_mono_r; lia).
    rewrite Nat.mul_succ_l in H0. lia.
  Qed.
  Lemma B_cut u u' r r' z z' : u' < u -> r' <= R -> z' <= Z -> B u' r' z' < B u r z.
  Proof.
    unfold B. intros Hu Hr Hz.
    assert (S u' * (S R * S Z) <= u * (S R * S Z)) by (apply Nat.mul_le_mono_r; lia).
    rewrite Nat.mul_succ_l in H.
    pose proof (Nat.mul_le_mono_r r' R (S Z) Hr).
    assert (S R * S Z = R * S Z + S Z) by (rewrite Nat.mul_succ_l; reflexivity).
    lia.
  Qed.

  Lemma size_pos e : 1 <= size e.
  Proof. destruct e; cbn [Strat.size]; lia. Qed.

  Lemma B_ge_size u r z : z <= B u r z.
  Proof. unfold B. lia. Qed.

  (** * lists of sub-evaluations *)
  Section Lists.
    Context {X Y : Type}.
    Variable f : st -> X -> res (st * Y).
    Variable u : nat.
    Variable l : list X.
    Hypothesis Hnf : forall s x, In x l -> inv s -> U s <= u -> f s x <> Fuel.
    Hypothesis Hst : forall s x s' b, inv s -> f s x = Ok (s', b) -> inv s' /\ U s' <= U s.

    Lemma map_st_nf_st : forall l', (forall x, In x l' -> In x l) -> forall s, inv s -> U s <= u ->
      map_st f s l' <> Fuel /\ (forall s' bs, map_st f s l' = Ok (s', bs) -> inv s' /\ U s' <= U s).
    Proof.
      induction l' as [|x l' IH]; intros Hsub s Hi Hu.
      - cbn [map_st]. split; [discriminate|]. intros s' bs H. inversion H; subst. auto.
      - cbn [map_st]. pose proof (Hnf s x (Hsub x (or_introl eq_refl)) Hi Hu) as H1.
        destruct (f s x) as [[s1 b]|e|p|] eqn:E1; cbn [bind]; try (split; [discriminate|intros ? ? HH; discriminate HH]); [|contradiction].
        destruct (Hst s x s1 b Hi E1) as [Hi1 Hu1].
        destruct (IH (fun y Hy => Hsub y (or_intror Hy)) s1 Hi1 ltac:(lia)) as [H2 H3].
        cbn beta iota. destruct (map_st f s1 l') as [[s2 bs]|e|p|] eqn:E2; cbn [bind]; cbn beta iota; try (split; [discriminate|intros ? ? HH; discriminate HH]); [|contradiction].
        split; [discriminate|]. intros s' bs' H. inversion H; subst. destruct (H3 s' bs eq_refl). split; [assumption|lia].
    Qed.
  End Lists.

  Lemma opt_st_nf_st {X Y} (f : st -> X -> res (st * Y)) o s :
    (forall x, o = Some x -> f s x <> Fuel) ->
    (forall x s' b, o = Some x -> f s x = Ok (s', b) -> inv s' /\ U s' <= U s) -> inv s ->
    opt_st f s o <> Fuel /\ (forall s' ob, opt_st f s o = Ok (s', ob) -> inv s' /\ U s' <= U s).
  Proof.
    intros Hnf Hst Hi. destruct o as [x|]; cbn [opt_st].
    - specialize (Hnf x eq_refl). destruct (f s x) as [[s1 b]|e|p|] eqn:E; cbn [bind]; try (split; [discriminate|intros ? ? HH; discriminate HH]); [|contradiction].
      split; [discriminate|]. intros s' ob H. inversion H; subst. apply (Hst x s' b eq_refl E).
    - split; [discriminate|]. intros s' ob H. inversion H; subst. auto.
  Qed.

  (** an evaluation followed by a cast *)
  Lemma step_nf {Y} (ev : st -> expr -> res (st * aval)) (c : aval -> res Y) s x :
    ev s x <> Fuel -> (forall v, c v <> Fuel) -> (do (s', v) <- ev s x; do y <- c v; Ok (s', y)) <> Fuel.
  Proof.
    intros He Hc. apply bind_nf; [exact He|]. intros [s1 v] _. cbn beta iota. apply bind_nf; [apply Hc|discriminate].
  Qed.
  Lemma step_st {Y} (ev : st -> expr -> res (st * aval)) (c : aval -> res Y) s x s' y :
    (do (s1, v) <- ev s x; do y <- c v; Ok (s1, y)) = Ok (s', y) -> exists v, ev s x = Ok (s', v).
  Proof.
    destruct (ev s x) as [[s1 v]|e|p|]; cbn [bind]; try discriminate. destruct (c v); cbn [bind]; try discriminate.
    intros H. inversion H; subst. exists v. reflexivity.
  Qed.

  Lemma inv_push_rec s x key : inv s -> inv (push_scope s [(x, (VRecur key, @nil (str * yaml)))]).
  Proof.
    intros [Hr Hs Hn Hp]. set (sc := [(x, (VRecur key, @nil (str * yaml)))]).
    assert (Hmono : forall k, allk s k -> allk (push_scope s sc) k).
    { intros k [H|(id & sc' & y & a0 & H1 & H2)]; [left; exact H|right]. exists id, sc', y, a0. split; [right; exact H1|exact H2]. }
    constructor; cbn [push_scope refs scopes]; try assumption.
    - intros k v a0 Hin. eapply sub_mono; [exact Hmono|]. eapply Hr, Hin.
    - intros id sc' y v a0 [[= <- <-]|H1] H2.
      + destruct H2 as [[= <- <- <-]|[]]. cbn [ks_value]. intros k [<-|[]]. right.
        exists (Eval.seq s + 1)%N, sc, x, []. split; [left; reflexivity|left; reflexivity].
      + eapply sub_mono; [exact Hmono|]. eapply Hs; eassumption.
  Qed.


  Lemma bind_args_nf (ev : st -> expr -> res (st * aval)) u : forall args,
    (forall s x, In x args -> inv s -> U s <= u -> ev s x <> Fuel) ->
    (forall s x s' v, inv s -> ev s x = Ok (s', v) -> inv s' /\ U s' <= U s) ->
    forall s ps sc, inv s -> U s <= u -> bind_args ev s ps args sc <> Fuel.
  Proof.
    induction args as [|a args IH]; intros Hnf Hst s ps sc Hi Hu.
    - destruct ps; discriminate.
    - destruct ps as [|p ps]; [discriminate|]. cbn [bind_args].
      pose proof (Hnf s a (or_introl eq_refl) Hi Hu) as H1.
      destruct (ev s a) as [[s1 v]|e|p0|] eqn:E1; cbn [bind]; try discriminate; [|contradiction].
      destruct (Hst s a s1 v Hi E1) as [Hi1 Hu1]. cbn beta iota.
      apply IH; [intros s0 x Hx; apply Hnf; right; exact Hx|exact Hst|exact Hi1|lia].
  Qed.

  Lemma eval_metas_nf (ev : st -> expr -> res (st * aval)) u : forall ms,
    (forall s k x, In (k, x) ms -> inv s -> U s <= u -> ev s x <> Fuel) ->
    (forall s x s' v, inv s -> ev s x = Ok (s', v) -> inv s' /\ U s' <= U s) ->
    forall s acc, inv s -> U s <= u ->
      eval_metas ev s ms acc <> Fuel /\ (forall s' acc', eval_metas ev s ms acc = Ok (s', acc') -> inv s' /\ U s' <= U s).
  Proof.
    induction ms as [|[k rhs] ms IH]; intros Hnf Hst s acc Hi Hu.
    - cbn [eval_metas]. split; [discriminate|]. intros s' acc' H. inversion H; subst. auto.
    - cbn [eval_metas]. pose proof (Hnf s k rhs (or_introl eq_refl) Hi Hu) as H1.
      destruct (ev s rhs) as [[s1 v]|e|p0|] eqn:E1; cbn [bind]; try (split; [discriminate|intros ? ? HH; discriminate HH]); [|contradiction].
      destruct (Hst s rhs s1 v Hi E1) as [Hi1 Hu1]. cbn beta iota. destruct acc as [[status media] headers].
      assert (IH' : forall acc0, eval_metas ev s1 ms acc0 <> Fuel /\
                                 (forall s' acc', eval_metas ev s1 ms acc0 = Ok (s', acc') -> inv s' /\ U s' <= U s)).
      { intros acc0. destruct (IH (fun s0 k0 x Hx => Hnf s0 k0 x (or_intror Hx)) Hst s1 acc0 Hi1 ltac:(lia)) as [A1 A2].
        split; [exact A1|]. intros s' acc' HH. destruct (A2 s' acc' HH). split; [assumption|lia]. }
      destruct k as [|[p|p|]].
      + pose proof (cast_string_nf (fst v)). destruct (cast_string (fst v)); cbn [bind]; try (split; [discriminate|intros ? ? HH; discriminate HH]); [apply IH'|contradiction].
      + pose proof (cast_status_nf (fst v)). destruct (cast_http_status (fst v)); cbn [bind]; try (split; [discriminate|intros ? ? HH; discriminate HH]); [apply IH'|contradiction].
      + pose proof (cast_status_nf (fst v)). destruct (cast_http_status (fst v)); cbn [bind]; try (split; [discriminate|intros ? ? HH; discriminate HH]); [apply IH'|contradiction].
      + pose proof (cast_object_nf (fst v)). destruct (cast_object (fst v)); cbn [bind]; try (split; [discriminate|intros ? ? HH; discriminate HH]); [apply IH'|contradiction].
  Qed.

  Lemma eval_fun_decl n s m i d a : get_decl P m i = Some d -> d_params d <> [] ->
    eval false P n s (EDecl m i) a = Fuel \/ eval false P n s (EDecl m i) a = Ok (s, (VLamExt m i, a)).
  Proof.
    intros Hd Hp. destruct n; [left; reflexivity|right]. cbn [eval]. rewrite Hd. destruct (d_params d); [contradiction|reflexivity].
  Qed.
  Lemma eval_no_decl n s m i a : get_decl P m i = None ->
    eval false P n s (EDecl m i) a = Fuel \/ eval false P n s (EDecl m i) a = Panic P_decl.
  Proof. intros Hd. destruct n; [left; reflexivity|right]. cbn [eval]. rewrite Hd. reflexivity. Qed.
  Lemma eval_concat n s a : eval false P n s EConcat a = Fuel \/ eval false P n s EConcat a = Ok (s, (VLamInt, a)).
  Proof. destruct n; [left; reflexivity|right; reflexivity]. Qed.

  Theorem fuel_ok : forall n s e a, inv s -> fo e = true -> B (U s) (erank e) (size e) <= n ->
    eval false P n s e a <> Fuel.
  Proof.
    induction n as [|n IH]; intros s e a Hi Hfo HB.
    - pose proof (size_pos e). pose proof (B_ge_size (U s) (erank e) (size e)). lia.
    - assert (IHsub : forall s' e' a', inv s' -> U s' <= U s -> size e' < size e -> erank e' <= erank e -> fo e' = true ->
                                       eval false P n s' e' a' <> Fuel).
      { intros s' e' a' Hi' Hu' Hs' Hr' Hf'. apply IH; [exact Hi'|exact Hf'|].
        pose proof (B_size (U s) (U s') (erank e) (erank e') (size e) (size e') Hu' Hr' Hs'). lia. }
      assert (Hst : forall s' e' a' s'' v, inv s' -> eval false P n s' e' a' = Ok (s'', v) -> inv s'' /\ U s'' <= U s').
      { intros s' e' a' s'' v Hi' He. pose proof (closure P n s' e' a' Hi') as G. rewrite He in G.
        destruct G as (Hi'' & _ & Hd & _ & _). split; [exact Hi''|apply U_mono, Hd]. }
      set (EV := fun s e => eval false P n s e []) in *.
      (* a list of sub-expressions, each followed by a cast *)
      assert (Hlist : forall {Y} (c : aval -> res Y) (es : list expr) s0,
                 (forall v, c v <> Fuel) -> (forall x, In x es -> size x < size e /\ erank x <= erank e /\ fo x = true) ->
                 inv s0 -> U s0 <= U s ->
                 map_st (fun s p => do (s', v) <- EV s p; do y <- c v; Ok (s', y)) s0 es <> Fuel /\
                 (forall s' bs, map_st (fun s p => do (s', v) <- EV s p; do y <- c v; Ok (s', y)) s0 es = Ok (s', bs) -> inv s' /\ U s' <= U s0)).
      { intros Y c es s0 Hc Hes Hi0 Hu0.
        apply (map_st_nf_st _ (U s) es); [| |auto|exact Hi0|exact Hu0].
        - intros s1 x Hx Hi1 Hu1. destruct (Hes x Hx) as (H1 & H2 & H3). apply step_nf; [apply IHsub; assumption|exact Hc].
        - intros s1 x s' b Hi1 Hx. apply step_st in Hx as [v Hv]. eapply Hst; eassumption. }
      assert (Hopt : forall {Y} (c : aval -> res Y) (o : option expr) s0,
                 (forall v, c v <> Fuel) -> (forall x, o = Some x -> size x < size e /\ erank x <= erank e /\ fo x = true) ->
                 inv s0 -> U s0 <= U s ->
                 opt_st (fun s p => do (s', v) <- EV s p; do y <- c v; Ok (s', y)) s0 o <> Fuel /\
                 (forall s' ob, opt_st (fun s p => do (s', v) <- EV s p; do y <- c v; Ok (s', y)) s0 o = Ok (s', ob) -> inv s' /\ U s' <= U s0)).
      { intros Y c o s0 Hc Ho Hi0 Hu0. apply opt_st_nf_st; [| |exact Hi0].
        - intros x Hx. destruct (Ho x Hx) as (H1 & H2 & H3). apply step_nf; [apply IHsub; assumption|exact Hc].
        - intros x s' b Hx Hb. apply step_st in Hb as [v Hv]. eapply Hst; eassumption. }
      destruct e; cbn [eval]; fold EV; cbn [Strat.size Strat.erank Strat.fo] in *.
      + (* ETerm *) apply nf_pure; [apply compose_nf|]. intros x _. apply IHsub; auto; lia.
      + (* ESub *) apply IHsub; auto; lia.
      + apply nf_pure; [apply prim_value_nf|discriminate].
      + discriminate.
      + discriminate.
      + discriminate.
      + (* EDecl *)
        destruct (get_decl P m i) as [d|] eqn:Hd; [|discriminate].
        pose proof (Hdecl m i d Hd) as Hok. unfold decl_sokb, expr_okb in Hok.
        apply andb_prop in Hok as [Hok Hrk]. apply andb_prop in Hok as [Hok Hfo']. apply andb_prop in Hok as [Hsz Her].
        apply Nat.leb_le in Hsz, Her.
        destruct (d_params d) as [|p ps] eqn:Hps; [|discriminate].
        apply nf_pure; [apply compose_nf|]. intros da _.
        assert (Hcut : cutd d = (match d_ref d with Some _ => true | None => false end) || d_rec d) by (unfold cutd; rewrite Hps; reflexivity).
        destruct ((match d_ref d with Some _ => true | None => false end) || d_rec d) eqn:Hc.
        * set (key := match d_ref d with Some x => KNamed x | None => KDecl m i end).
          destruct (rget key (refs s)) as [[v|]|] eqn:Hget; try discriminate.
          assert (Hkey : match key with KRec _ _ _ => False | _ => True end) by (subst key; destruct (d_ref d); exact I).
          pose proof (inv_set_refs_none s key Hi Hget Hkey) as Hi1.
          apply bind_nf; [|intros [s2 v] _; discriminate].
          apply IH; [exact Hi1|exact Hfo'|].
          assert (Hu1 : U (set_refs s (rinsert key None (refs s))) < U s).
          { apply (U_dec s _ key).
            - intros k Hk. cbn [set_refs refs]. apply rinsert_dom. right. exact Hk.
            - subst key. apply (cutkeys_in m i d Hd Hcut).
            - apply rget_none_dom, Hget.
            - cbn [set_refs refs]. apply rinsert_dom. left. reflexivity. }
          pose proof (B_cut (U s) _ (S (rank m i)) (erank (d_rhs d)) 1 (size (d_rhs d)) Hu1 Her Hsz) as HB'.
          pose proof (B_cut (U s) _ (if cutb P m i then 0 else S (rank m i)) (erank (d_rhs d)) 1 (size (d_rhs d)) Hu1 Her Hsz). lia.
        * rewrite Hcut in Hrk. cbn [orb] in Hrk. apply Nat.leb_le in Hrk.
          apply IH; [exact Hi|exact Hfo'|].
          assert (Hcb : cutb P m i = false) by (unfold cutb; rewrite Hd; exact Hcut). rewrite Hcb in HB.
          pose proof (B_rank (U s) (U s) (S (rank m i)) (erank (d_rhs d)) 1 (size (d_rhs d)) (le_n _) ltac:(lia) Hsz). lia.
      + discriminate.
      + destruct (lookup_binding x (scopes s)) as [[v prev]|]; discriminate.
      + (* EApp *)
        apply andb_prop in Hfo as [Hfo_f Hfo_args].
        assert (Hargs : forall x, In x args -> size x < S (size e + fold_right (fun x acc => size x + acc) 0 args) /\
                                   erank x <= Nat.max (erank e) (fold_right (fun x acc => Nat.max (erank x) acc) 0 args) /\ fo x = true).
        { intros x Hx. pose proof (size_in size args x Hx). pose proof (max_in erank args x Hx).
          rewrite forallb_forall in Hfo_args. split; [lia|]. split; [lia|apply Hfo_args, Hx]. }
        assert (Hf_nf : EV s e <> Fuel).
        { apply IHsub; [exact Hi|lia|lia|lia|]. destruct e; try discriminate Hfo_f; reflexivity. }
        destruct e; try discriminate Hfo_f.
        * (* a declared function *)
          destruct (get_decl P m i) as [d|] eqn:Hd.
          -- destruct (d_params d) as [|p ps] eqn:Hps; [discriminate Hfo_f|].
             destruct (eval_fun_decl n s m i d [] Hd ltac:(rewrite Hps; discriminate)) as [Hf|Hf]; [contradiction|].
             unfold EV at 1. rewrite Hf. cbn [bind fst cast_lambda]. rewrite Hd.
             pose proof (Hdecl m i d Hd) as Hok. unfold decl_sokb, expr_okb in Hok.
             apply andb_prop in Hok as [Hok Hrk]. apply andb_prop in Hok as [Hok Hfo']. apply andb_prop in Hok as [Hsz Her].
             apply Nat.leb_le in Hsz, Her.
             assert (Hcut : cutd d = false) by (unfold cutd; rewrite Hps; reflexivity).
             rewrite Hcut in Hrk. cbn [orb] in Hrk. apply Nat.leb_le in Hrk.
             assert (Hcb : cutb P m i = false) by (unfold cutb; rewrite Hd; exact Hcut).
             pose proof (bind_args_good EV (fun s0 e0 Hi0 => closure P n s0 e0 [] Hi0) args s (d_params d) [] Hi
                           (fun x v a0 (F : In (x, (v, a0)) []) => match F with end)) as Hg.
             pose proof (bind_args_nf EV (U s) args
                           (fun s0 x Hx Hi0 Hu0 => IHsub s0 x [] Hi0 Hu0 (proj1 (Hargs x Hx)) (proj1 (proj2 (Hargs x Hx))) (proj2 (proj2 (Hargs x Hx))))
                           (fun s0 x s' v Hi0 Hx => Hst s0 x [] s' v Hi0 Hx) s (d_params d) [] Hi (le_n _)) as Hb.
             rewrite Hps in *.
             destruct (bind_args EV s (p :: ps) args []) as [[s2 sc]|x|p0|]; cbn [bind good] in *; try discriminate; [|contradiction].
             destruct Hg as (Hi2 & Hsc & Hd2 & _ & _).
             apply nf_pure; [apply compose_nf|]. intros da _.
             apply bind_nf; [|intros [s3 r] _; discriminate].
             apply IH; [apply inv_push; assumption|exact Hfo'|].
             assert (Hu2 : U (push_scope s2 sc) <= U s) by (apply (U_mono s (push_scope s2 sc)), Hd2).
             cbn [Strat.erank] in HB. rewrite Hcb in HB.
             pose proof (B_rank (U s) (U (push_scope s2 sc))
                           (Nat.max (S (rank m i)) (fold_right (fun x acc => Nat.max (erank x) acc) 0 args)) (erank (d_rhs d))
                           (S (1 + fold_right (fun x acc => size x + acc) 0 args)) (size (d_rhs d)) Hu2 ltac:(lia) Hsz).
             cbn [Strat.size] in HB. lia.
          -- destruct (eval_no_decl n s m i [] Hd) as [Hf|Hf]; [contradiction|]. unfold EV at 1. rewrite Hf. discriminate.
        * (* concat *)
          destruct (eval_concat n s []) as [Hf|Hf]; [contradiction|]. unfold EV at 1. rewrite Hf. cbn [bind fst cast_lambda].
          destruct (map_st_nf_st EV (U s) args
                      (fun s0 x Hx Hi0 Hu0 => IHsub s0 x [] Hi0 Hu0 (proj1 (Hargs x Hx)) (proj1 (proj2 (Hargs x Hx))) (proj2 (proj2 (Hargs x Hx))))
                      (fun s0 x s' v Hi0 Hx => Hst s0 x [] s' v Hi0 Hx) args (fun x Hx => Hx) s Hi (le_n _)) as [Hm _].
          apply bind_nf; [exact Hm|]. intros [s2 vs] _. cbn beta iota.
          destruct vs as [|vl [|vr [|v3 vs]]]; try discriminate.
          apply nf_pure; [apply cast_uri_nf|]. intros ru _. apply nf_pure; [apply cast_uri_nf|]. intros lu _.
          apply nf_pure; [apply uri_append_nf|]. discriminate.
      + (* ERec *)
        apply bind_nf; [|intros [s1 rhs] _; discriminate].
        apply IHsub; [apply inv_push_rec, Hi|apply le_n|lia|lia|exact Hfo].
      + (* EObj *)
        assert (Hes : forall x, In x ps -> size x < S (fold_right (fun x acc => size x + acc) 0 ps) /\
                                 erank x <= fold_right (fun x acc => Nat.max (erank x) acc) 0 ps /\ fo x = true).
        { intros x Hx. pose proof (size_in size ps x Hx). pose proof (max_in erank ps x Hx).
          rewrite forallb_forall in Hfo. split; [lia|]. split; [lia|apply Hfo, Hx]. }
        destruct (Hlist _ (fun v => cast_property (fst v)) ps s (fun v => cast_property_nf (fst v)) Hes Hi (le_n _)) as [Hm _].
        apply bind_nf; [exact Hm|]. intros [s1 props] _. discriminate.
      + (* EProp *)
        apply bind_nf; [apply IHsub; auto; lia|]. intros [s1 v] _. cbn beta iota.
        apply nf_pure; [apply cast_schema_nf|discriminate].
      + (* EUnary *)
        apply bind_nf; [apply IHsub; auto; lia|]. intros [s1 v] _. cbn beta iota.
        apply nf_pure; [apply cast_property_nf|discriminate].
      + (* EArr *)
        apply bind_nf; [apply IHsub; auto; lia|]. intros [s1 v] _. cbn beta iota.
        apply nf_pure; [apply cast_schema_nf|discriminate].
      + (* EOp *)
        assert (Hes : forall x, In x es -> size x < S (fold_right (fun x acc => size x + acc) 0 es) /\
                                 erank x <= fold_right (fun x acc => Nat.max (erank x) acc) 0 es /\ fo x = true).
        { intros x Hx. pose proof (size_in size es x Hx). pose proof (max_in erank es x Hx).
          rewrite forallb_forall in Hfo. split; [lia|]. split; [lia|apply Hfo, Hx]. }
        destruct (N.eqb op 3).
        * destruct (Hlist _ cast_ranges es s cast_ranges_nf Hes Hi (le_n _)) as [Hm _].
          apply bind_nf; [exact Hm|]. intros [s1 rs] _. discriminate.
        * destruct (vop_of op) as [vo|]; [|discriminate].
          destruct (Hlist _ cast_schema es s cast_schema_nf Hes Hi (le_n _)) as [Hm _].
          apply bind_nf; [exact Hm|]. intros [s1 rs] _. discriminate.
      + (* ECont *)
        apply andb_prop in Hfo as [Hfo_b Hfo_m].
        destruct (Hopt _ cast_schema body s cast_schema_nf) as [Hb1 Hb2]; [|exact Hi|apply le_n|].
        { intros x ->. split; [lia|]. split; [lia|exact Hfo_b]. }
        destruct (opt_st _ s body) as [[s1 schema]|x|p0|] eqn:Eb; cbn [bind]; try discriminate; [|contradiction].
        destruct (Hb2 s1 schema eq_refl) as [Hi1 Hu1]. cbn beta iota zeta.
        destruct (eval_metas_nf EV (U s) metas) with (s := s1) (acc := (match schema with Some _ => None | None => Some (StCode 204) end, @None str, @None (list property))) as [Hm _];
          [| |exact Hi1|exact Hu1|].
        { intros s0 k x Hx Hi0 Hu0.
          pose proof (size_in (fun ke : N * expr => match ke with (_, e') => size e' end) metas (k, x) Hx) as Hsz. cbn beta iota in Hsz.
          pose proof (max_in (fun ke : N * expr => match ke with (_, e') => erank e' end) metas (k, x) Hx) as Hrk. cbn beta iota in Hrk.
          rewrite forallb_forall in Hfo_m. specialize (Hfo_m (k, x) Hx). cbn beta iota in Hfo_m.
          apply IHsub; [exact Hi0|exact Hu0|lia|lia|exact Hfo_m]. }
        { intros s0 x s' v Hi0 Hx. eapply Hst; eassumption. }
        apply bind_nf; [exact Hm|]. intros [s2 [[status media] headers]] _. discriminate.
      + (* EXfer *)
        apply andb_prop in Hfo as [Hfo1 Hfo_p]. apply andb_prop in Hfo1 as [Hfo_d Hfo_r].
        destruct (Hopt _ cast_content domain s cast_content_nf) as [Hb1 Hb2]; [|exact Hi|apply le_n|].
        { intros x ->. split; [lia|]. split; [lia|exact Hfo_d]. }
        destruct (opt_st _ s domain) as [[s1 dom0]|x|p0|] eqn:Eb; cbn [bind]; try discriminate; [|contradiction].
        destruct (Hb2 s1 dom0 eq_refl) as [Hi1 Hu1]. cbn beta iota zeta.
        pose proof (IHsub s1 e [] Hi1 Hu1 ltac:(lia) ltac:(lia) Hfo_r) as Hr1. unfold EV in Hr1 |- *.
        destruct (eval false P n s1 e []) as [[s2 rv]|x|p0|] eqn:Er; cbn [bind]; try discriminate; [|contradiction].
        destruct (Hst s1 e [] s2 rv Hi1 Er) as [Hi2 Hu2]. cbn beta iota.
        apply nf_pure; [apply cast_ranges_nf|]. intros rg _.
        destruct (Hopt _ (fun v => cast_object (fst v)) params s2 (fun v => cast_object_nf (fst v))) as [Hp1 _]; [|exact Hi2|lia|].
        { intros x ->. split; [lia|]. split; [lia|exact Hfo_p]. }
        apply bind_nf; [exact Hp1|]. intros [s3 prm] _. discriminate.
      + (* EUri *)
        apply andb_prop in Hfo as [Hfo_s Hfo_p].
        destruct (map_st_nf_st (fun s (sg : str + expr) =>
                                  match sg with
                                  | inl x => Ok (s, ULit x)
                                  | inr v => do (s', pv) <- EV s v; do p <- cast_property (fst pv); Ok (s', UVar p)
                                  end) (U s) segs) with (l' := segs) (s := s) as [Hm1 Hm2]; [| |auto|exact Hi|apply le_n|].
        { intros s0 [x|v] Hx Hi0 Hu0; [discriminate|].
          pose proof (size_in (fun sg : str + expr => match sg with inl _ => 0 | inr e' => size e' end) segs (inr v) Hx) as Hsz. cbn beta iota in Hsz.
          pose proof (max_in (fun sg : str + expr => match sg with inl _ => 0 | inr e' => erank e' end) segs (inr v) Hx) as Hrk. cbn beta iota in Hrk.
          rewrite forallb_forall in Hfo_s. specialize (Hfo_s (inr v) Hx). cbn beta iota in Hfo_s.
          apply bind_nf; [apply IHsub; [exact Hi0|exact Hu0|lia|lia|exact Hfo_s]|]. intros [s1 pv] _. cbn beta iota.
          apply nf_pure; [apply cast_property_nf|discriminate]. }
        { intros s0 [x|v] s' b Hi0 Hx; [inversion Hx; subst; auto|].
          destruct (EV s0 v) as [[s1 pv]|x|p0|] eqn:E; cbn [bind] in Hx; try discriminate Hx.
          destruct (cast_property (fst pv)); cbn [bind] in Hx; try discriminate Hx. inversion Hx; subst.
          exact (Hst s0 v [] s' pv Hi0 E). }
        destruct (map_st _ s segs) as [[s1 path]|x|p0|] eqn:Em; cbn [bind]; try discriminate; [|contradiction].
        destruct (Hm2 s1 path eq_refl) as [Hi1 Hu1]. cbn beta iota.
        destruct (Hopt _ (fun v => cast_object (fst v)) params s1 (fun v => cast_object_nf (fst v))) as [Hp1 _]; [|exact Hi1|exact Hu1|].
        { intros x ->. split; [lia|]. split; [lia|exact Hfo_p]. }
        apply bind_nf; [exact Hp1|]. intros [s2 prm] _. discriminate.
      + (* ERel *)
        apply andb_prop in Hfo as [Hfo_u Hfo_x].
        pose proof (IHsub s e [] Hi (le_n _) ltac:(lia) ltac:(lia) Hfo_u) as Hr1. unfold EV in Hr1 |- *.
        destruct (eval false P n s e []) as [[s1 uv]|x|p0|] eqn:Er; cbn [bind]; try discriminate; [|contradiction].
        destruct (Hst s e [] s1 uv Hi Er) as [Hi1 Hu1]. cbn beta iota.
        apply nf_pure; [apply cast_uri_nf|]. intros ur _.
        assert (Hes : forall x, In x xfers -> size x < S (size e + fold_right (fun x acc => size x + acc) 0 xfers) /\
                                 erank x <= Nat.max (erank e) (fold_right (fun x acc => Nat.max (erank x) acc) 0 xfers) /\ fo x = true).
        { intros x Hx. pose proof (size_in size xfers x Hx). pose proof (max_in erank xfers x Hx).
          rewrite forallb_forall in Hfo_x. split; [lia|]. split; [lia|apply Hfo_x, Hx]. }
        destruct (Hlist _ (fun v => cast_transfer (fst v)) xfers s1 (fun v => cast_transfer_nf (fst v)) Hes Hi1 Hu1) as [Hm _].
        apply bind_nf; [exact Hm|]. intros [s2 ts] _. discriminate.
  Qed.
End Term.

(** * whole programs *)
Lemma all_decls_get P f m i d : all_decls P f = true -> get_decl P m i = Some d -> f m i d = true.
Proof.
  unfold all_decls, get_decl. intros H Hd.
  destruct (nth_error P (N.to_nat m)) as [ds|] eqn:Hm; [|discriminate].
  rewrite forallb_forall in H. specialize (H (m, ds)). cbn [fst snd] in H.
  assert (Hin : In (m, ds) (enum P)) by (rewrite <- (N2Nat.id m); apply enum_in, Hm).
  specialize (H Hin). rewrite forallb_forall in H. specialize (H (i, d)). cbn [fst snd] in H.
  apply H. rewrite <- (N2Nat.id i). apply enum_in, Hd.
Qed.

Lemma refs_table_nf r : refs_table r <> Fuel.
Proof.
  induction r as [|[k [v|]] r IH]; cbn [refs_table]; [discriminate| |exact IH].
  apply bind_nf; [apply cast_schema_nf|]. intros sc _. apply bind_nf; [exact IH|discriminate].
Qed.

Lemma B_le R Z u u' r r' z z' : u' <= u -> r' <= r -> z' <= z -> B R Z u' r' z' <= B R Z u r z.
Proof.
  unfold B. intros Hu Hr Hz.
  pose proof (Nat.mul_le_mono_r u' u (S R * S Z) Hu). pose proof (Nat.mul_le_mono_r r' r (S Z) Hr). lia.
Qed.

Theorem program_terminates P rk R Z rs :
  strat_okb P rk R Z rs = true ->
  forall n, B R Z (U P st0) R Z <= n -> eval_program false P n rs <> Fuel.
Proof.
  unfold strat_okb. intros H n Hn. apply andb_prop in H as [Hds Hrs].
  assert (Hdecl : forall m i d, get_decl P m i = Some d -> decl_sokb P (rank_of rk) R Z m i d = true).
  { intros m i d Hd. exact (all_decls_get P _ m i d Hds Hd). }
  unfold eval_program.
  destruct (map_st_nf_st P (fun s r => do (s', v) <- eval false P n s r []; do rel <- cast_relation (fst v); Ok (s', rel))
              (U P st0) rs) with (l' := rs) (s := st0) as [Hm _]; [| |auto|exact inv_st0|apply le_n|].
  - intros s x Hx Hi Hu. rewrite forallb_forall in Hrs. specialize (Hrs x Hx). unfold expr_okb in Hrs.
    apply andb_prop in Hrs as [Hrs Hfo]. apply andb_prop in Hrs as [Hsz Her]. apply Nat.leb_le in Hsz, Her.
    apply bind_nf; [|intros [s1 v] _; cbn beta iota; apply nf_pure; [apply cast_relation_nf|discriminate]].
    apply (fuel_ok P (rank_of rk) R Z Hdecl); [exact Hi|exact Hfo|].
    pose proof (B_le R Z (U P st0) (U P s) R (erank P (rank_of rk) x) Z (Strat.size x) Hu Her Hsz). lia.
  - intros s x s' b Hi Hx.
    pose proof (closure P n s x [] Hi) as G.
    destruct (eval false P n s x []) as [[s1 v]|e|p0|]; cbn [bind] in Hx; try discriminate Hx.
    destruct (cast_relation (fst v)); cbn [bind] in Hx; try discriminate Hx. inversion Hx; subst.
    destruct G as (Hi' & _ & Hd & _ & _). split; [exact Hi'|apply U_mono, Hd].
  - apply bind_nf; [exact Hm|]. intros [s1 rels] _. cbn beta iota.
    apply bind_nf; [apply refs_table_nf|discriminate].
Qed.

(** the executable check of the tie is an instance *)
Corollary stratified_terminates P rs :
  stratified P rs = true -> exists N, forall n, N <= n -> eval_program false P n rs <> Fuel.
Proof. unfold stratified. intros H. eexists. intros n Hn. eapply program_terminates; eassumption. Qed.

(** the hypothesis is needed: a function that calls itself is not stratified and runs out of
    any fuel (the recursion check rejects it) *)
Definition ex_loop : prog := [[ mk_decl None false [] [7%N] (EApp (EDecl 0 0) [ETerm [] (EBind 7%N)]) ]].   (* let f x = f x; *)
Definition ex_loop_rs : list expr := [ERel (ETerm [] (EUri [inl 30%N] None)) [EXfer [0%N] None (ECont (Some (EApp (EDecl 0 0) [ETerm [] (EPrim 1%N)])) []) None]].
Lemma ex_loop_not_stratified : stratified ex_loop ex_loop_rs = false /\ eval_program false ex_loop 200 ex_loop_rs = Fuel.
Proof. split; vm_compute; reflexivity. Qed.

(** non-vacuity: the recursive example of ClosureProofs is stratified *)
Lemma ex_rec_stratified : stratified ex_rec_P ex_rec_rs = true.
Proof. vm_compute. reflexivity. Qed.

(** * capstone: well-typed stratified programs evaluate to a document, an error or a known panic *)
From Oal Require Typing TypingProofs.

Theorem accepted_programs_evaluate E P rs :
  Typing.wt_progb E P rs = true -> stratified P rs = true ->
  exists N, forall n, N <= n ->
    match eval_program false P n rs with
    | Ok _ | Err _ => True
    | Panic p => TypingProofs.allowed p
    | Fuel => False
    end.
Proof.
  intros Hwt Hst. destruct (stratified_terminates P rs Hst) as [N HN]. exists N. intros n Hn.
  pose proof (HN n Hn) as Hnf. pose proof (TypingProofs.typed_programs E P rs n Hwt) as Hty.
  destruct (eval_program false P n rs); auto.
Qed.

(** * the evaluation of a stratified program is one well-defined result *)
From Oal Require FuelProofs.

Theorem stratified_result P rs :
  stratified P rs = true ->
  exists N r, r <> Fuel /\ forall n, N <= n -> eval_program false P n rs = r.
Proof.
  intros H. destruct (stratified_terminates P rs H) as [N HN].
  exists N, (eval_program false P N rs). split; [apply HN, le_n|].
  intros n Hn. apply (FuelProofs.eval_program_fuel_mono false P N n rs _ eq_refl (HN N (le_n _)) Hn).
Qed.

(** * for well-typed programs the code's evaluation is the lexical evaluation, without exception *)
From Oal Require EvalProofs.
Theorem typed_evaluation_is_lexical E P rs n :
  Typing.wt_progb E P rs = true -> closed_prog P ->
  eval_program false P n rs = eval_program true P n rs.
Proof.
  intros Hwt Hcp. pose proof (TypingProofs.wt_resources_closed E P rs Hwt) as Hrs.
  pose proof (EvalProofs.eval_program_lexical P n rs Hcp Hrs) as Hlex.
  pose proof (TypingProofs.typed_programs_lx E P rs true n Hwt) as Hty.
  destruct (eval_program true P n rs) as [v|e|p|]; try exact Hlex.
  destruct Hlex as [->|Hlex]; [|exact Hlex].
  exfalso. destruct Hty as [H|[H|[H|H]]]; discriminate H.
Qed.
