"""Canonical forms of documents up to the spelling of implicit component names (hash-<sha256>)."""
import json
import re

HASH = re.compile(r"hash-[0-9a-f]{64}")


def canon_doc(doc):
    """rename implicit components h0, h1, ... in order of first occurrence in a deterministic
    traversal (paths first, keys sorted), then sort the components"""
    order = {}

    def visit(v):
        if isinstance(v, dict):
            for k in sorted(v):
                visit(v[k])
        elif isinstance(v, list):
            for x in v:
                visit(x)
        elif isinstance(v, str):
            for m in HASH.findall(v):
                if m not in order:
                    order[m] = "h%d" % len(order)
    schemas = ((doc.get("components") or {}).get("schemas") or {})
    visit(doc.get("paths"))
    # components reachable only from other components: follow in name order of discovery
    pending = True
    while pending:
        pending = False
        for name in list(order):
            if name in schemas and ("_seen_" + name) not in order:
                before = len(order)
                visit(schemas[name])
                order["_seen_" + name] = None
                pending = pending or len(order) > before + 1
    for name in sorted(schemas):
        if HASH.fullmatch(name) and name not in order:
            order[name] = "h%d" % len([k for k in order if not k.startswith("_seen_")])
    txt = json.dumps(doc, sort_keys=True)
    txt = HASH.sub(lambda m: order.get(m.group(0)) or m.group(0), txt)
    return json.loads(txt)
