(** The document builder never panics on the Spec of a successful evaluation: every
    [expect("reference should exist")] finds its reference, because the evaluator's Spec is
    closed (ClosureProofs.spec_closed), and the [unreachable!()] arms are excluded by the type
    of schema operations. Hence evaluation followed by the builder is total on every program
    whose evaluation succeeds. *)
From Oal Require Import Eval Builder ClosureProofs.
From Coq Require Import Lia.
Local Open Scope N_scope.

Lemma oall_some {A B} (f : A -> option B) l :
  Forall (fun x => exists y, f x = Some y) l -> exists ys, oall (map f l) = Some ys.
Proof.
  induction 1 as [|x l [y Hy] _ [ys IH]]; [exists []; reflexivity|].
  exists (y :: ys). cbn [map oall fold_right]. fold (oall (map f l)). rewrite Hy, IH. reflexivity.
Qed.

Lemma oall_app {A} (l1 l2 : list (option A)) :
  (exists a, oall l1 = Some a) -> (exists b, oall l2 = Some b) -> exists c, oall (l1 ++ l2) = Some c.
Proof.
  intros [a Ha] [b Hb]. revert a Ha. induction l1 as [|x l1 IH]; intros a Ha; cbn [app]; [exists b; exact Hb|].
  cbn [oall fold_right] in *. fold (oall l1) in Ha. fold (oall (l1 ++ l2)).
  destruct x as [x|]; [|discriminate Ha]. destruct (oall l1) as [a'|]; [|discriminate Ha].
  destruct (IH a' eq_refl) as [c Hc]. rewrite Hc. eexists. reflexivity.
Qed.

Section Total.
  Variable strs : N -> text.
  Variable table : list (rkey * schema).
  Variable names : list text.

  Definition present (k : rkey) : Prop := exists i s, key_pos k table 0 = Some (i, s).

  Lemma key_pos_in k : forall l i, In k (map fst l) -> exists j s, key_pos k l i = Some (j, s).
  Proof.
    induction l as [|[k' s] l IH]; intros i Hin; [destruct Hin|].
    cbn [key_pos]. destruct (rkey_eqb k k') eqn:E; [eexists _, _; reflexivity|].
    destruct Hin as [Hk|Hin]; [cbn [fst] in Hk; subst; rewrite rkey_eqb_refl in E; discriminate|apply IH, Hin].
  Qed.

  Lemma atomic_or_not s : (exists j, atomic_json strs s = Some j) \/ atomic_json strs s = None.
  Proof. destruct (atomic_json strs s); [left; eexists; reflexivity|right; reflexivity]. Qed.

  Lemma reference_total k : present k -> exists j, reference_json strs table names k = Some j.
  Proof.
    intros (i & s & H). unfold reference_json. rewrite H.
    destruct (is_named k); [eexists; reflexivity|]. destruct (atomic_json strs s); eexists; reflexivity.
  Qed.

  Notation sj := (schema_json strs table names).

  Lemma schema_total : forall s, sub (ks_schema s) present -> exists j, sj s = Some j.
  Proof.
    fix IH 1. intros [e desc title req ex] Hs. cbn [ks_schema] in Hs.
    destruct e as [mn mx mo ex0|pat en fmt ex0 mnl mxl| |mn mx mo ex0|r|u|i|ps|op ss|k]; cbn [schema_json];
      try (unfold atomic_json; cbn [atomic_fields]; try destruct r; eexists; reflexivity).
    - (* SArr *)
      cbn [ks_sexpr] in Hs. destruct (IH i Hs) as [j ->]. eexists. reflexivity.
    - (* SObj *)
      cbn [ks_sexpr] in Hs.
      assert (Hps : exists props, oall (map (fun p => match p with Prop_ n ps' _ _ =>
                                   match sj ps' with Some j => Some (strs n, j) | None => None end end) ps) = Some props).
      { apply oall_some. apply sub_flat_map in Hs. induction ps as [|[n sp d r] ps IHps]; [constructor|].
        inversion Hs as [|? ? Hh Ht]; subst. constructor; [|apply IHps, Ht].
        cbn [ks_property] in Hh. destruct (IH sp Hh) as [j ->]. eexists. reflexivity. }
      destruct Hps as [props ->]. eexists. reflexivity.
    - (* SOp *)
      cbn [ks_sexpr] in Hs.
      assert (Hss : exists js, oall (map sj ss) = Some js).
      { apply oall_some. apply sub_flat_map in Hs. induction ss as [|s0 ss IHss]; [constructor|].
        inversion Hs as [|? ? Hh Ht]; subst. constructor; [apply IH, Hh|apply IHss, Ht]. }
      destruct Hss as [js ->]. destruct op; eexists; reflexivity.
    - (* SRef *)
      apply reference_total. apply Hs. left. reflexivity.
  Qed.

  Lemma param_total w st rq p : sub (ks_property p) present -> exists j, param_json strs table names w st rq p = Some j.
  Proof.
    destruct p as [n s d r]. cbn [ks_property param_json]. intros H. destruct (schema_total s H) as [j ->]. eexists. reflexivity.
  Qed.

  Lemma header_total p : sub (ks_property p) present -> exists j, header_json strs table names p = Some j.
  Proof.
    destruct p as [n s d r]. cbn [ks_property header_json]. intros H. destruct (schema_total s H) as [j ->]. eexists. reflexivity.
  Qed.

  Lemma props_total {B} (f : property -> option B) ps :
    (forall p, sub (ks_property p) present -> exists j, f p = Some j) ->
    sub (ks_props ps) present -> exists js, oall (map f ps) = Some js.
  Proof.
    intros Hf Hs. apply oall_some. unfold ks_props in Hs. apply sub_flat_map in Hs.
    induction Hs as [|p ps Hp _ IHps]; constructor; [apply Hf, Hp|exact IHps].
  Qed.

  Lemma oprops_ks o : ks_props (oprops o) = ks_oprops o.
  Proof. destruct o; reflexivity. Qed.

  Lemma uri_params_total u : sub (ks_uri u) present -> exists js, uri_params_json strs table names u = Some js.
  Proof.
    destruct u as [path prm ex]. cbn [ks_uri uri_params_json]. intros H. apply sub_app in H as [Hp Hq].
    apply oall_app.
    - apply sub_flat_map in Hp. induction Hp as [|sg path Hsg _ IHp]; [exists []; reflexivity|].
      destruct sg as [l|p]; cbn [flat_map app]; [exact IHp|].
      cbn [ks_useg] in Hsg. destruct (param_total T_path T_simple true p Hsg) as [j Hj]. destruct IHp as [js Hjs].
      cbn [oall fold_right]. fold (oall (flat_map (fun sg => match sg with UVar p0 => [path_param strs table names p0] | ULit _ => [] end) path)).
      unfold path_param at 1. rewrite Hj, Hjs. eexists. reflexivity.
    - apply props_total; [intros p Hp'; apply param_total, Hp'|]. rewrite oprops_ks. exact Hq.
  Qed.

  Lemma request_total d : sub (ks_content d) present -> exists o, request_json strs table names d = Some o.
  Proof.
    destruct d as [[s|] st media hd desc ex]; cbn [request_json]; [|eexists; reflexivity].
    cbn [ks_content]. intros H. apply sub_app in H as [Hs _]. destruct (schema_total s Hs) as [j ->]. eexists. reflexivity.
  Qed.

  Lemma add_content_total r c : sub (ks_content c) present -> exists r', add_content strs table names r c = Some r'.
  Proof.
    destruct c as [s st media hd desc ex]. cbn [ks_content add_content]. intros H. apply sub_app in H as [Hs Hh].
    assert (H1 : exists cont, match s with
                              | None => Some (r_content r)
                              | Some sc => obind (schema_json strs table names sc)
                                             (fun sj0 => Some (put (media_of strs media) (media_json strs (Content s st media hd desc ex) sj0) (r_content r)))
                              end = Some cont).
    { destruct s as [sc|]; [|eexists; reflexivity]. destruct (schema_total sc Hs) as [j ->]. eexists. reflexivity. }
    destruct H1 as [cont ->]. cbn [obind].
    destruct (props_total (header_json strs table names) (oprops hd)) as [hs ->]; [intros p Hp; apply header_total, Hp|rewrite oprops_ks; exact Hh|].
    eexists. reflexivity.
  Qed.

  Lemma responses_total rg : forall acc, sub (ks_ranges rg) present -> exists rs, responses strs table names rg acc = Some rs.
  Proof.
    induction rg as [|[[st media] c] rg IH]; intros acc H; cbn [responses]; [eexists; reflexivity|].
    unfold ks_ranges in H. cbn [flat_map snd] in H. apply sub_app in H as [Hc Hr].
    destruct (add_content_total (match get (status_key st) acc with Some r => r | None => mk_resp [] [] [] end) c Hc) as [r' ->].
    cbn [obind]. apply IH, Hr.
  Qed.

  Lemma operation_total u m t : sub (ks_transfer t) present -> exists j, operation_json strs table names u m t = Some j.
  Proof.
    destruct t as [ms dom rg prm desc summ tags id]. rewrite ks_transfer_eq. intros H.
    apply sub_app in H as [Hd H]. apply sub_app in H as [Hr Hp]. cbn [operation_json].
    assert (Hparams : exists ps, oall (map (query_param strs table names) (oprops prm) ++
                                       map (header_param strs table names) (oprops (match dom with Content _ _ _ hd _ _ => hd end))) = Some ps).
    { apply oall_app.
      - apply props_total; [intros p Hp'; apply param_total, Hp'|rewrite oprops_ks; exact Hp].
      - apply props_total; [intros p Hp'; apply param_total, Hp'|]. rewrite oprops_ks.
        destruct dom as [s st media hd d ex]. cbn [ks_content] in Hd. apply sub_app in Hd as [_ Hh]. exact Hh. }
    destruct Hparams as [ps ->]. cbn [obind].
    destruct (request_total dom Hd) as [rb ->]. cbn [obind].
    unfold responses_json. destruct (responses_total rg [] Hr) as [rs ->]. cbn [obind]. eexists. reflexivity.
  Qed.

  Lemma ops_total u xs : forall m, sub (ks_xfers xs) present -> exists l, ops_json strs table names u xs m = Some l.
  Proof.
    induction xs as [|[t|] xs IH]; intros m H; cbn [ops_json]; [eexists; reflexivity| |].
    - unfold ks_xfers in H. cbn [flat_map] in H. apply sub_app in H as [Ht Hx].
      destruct (operation_total u m t Ht) as [j ->]. cbn [obind]. destruct (IH (S m) Hx) as [l ->]. eexists. reflexivity.
    - unfold ks_xfers in H. cbn [flat_map app] in H. apply IH, H.
  Qed.

  Lemma path_item_total r : sub (ks_relation r) present -> exists kv, path_item_json strs table names r = Some kv.
  Proof.
    destruct r as [u xs]. cbn [ks_relation path_item_json]. intros H. apply sub_app in H as [Hu Hx].
    destruct (uri_params_total u Hu) as [ps ->]. cbn [obind].
    destruct (ops_total u xs 0%nat Hx) as [l ->]. eexists. reflexivity.
  Qed.

  Lemma paths_total rels : sub (flat_map ks_relation rels) present -> exists j, paths_json strs table names rels = Some j.
  Proof.
    intros H. unfold paths_json.
    destruct (oall_some (path_item_json strs table names) rels) as [items ->]; [|eexists; reflexivity].
    apply sub_flat_map in H. induction H as [|r rels Hr _ IHr]; constructor; [apply path_item_total, Hr|exact IHr].
  Qed.

  Lemma components_total : forall l i acc,
    (forall k s, In (k, s) l -> sub (ks_schema s) present) -> exists cs, components strs table names l i acc = Some cs.
  Proof.
    induction l as [|[k s] l IH]; intros i acc H; cbn [components]; [eexists; reflexivity|].
    destruct (negb (is_named k) && match atomic_json strs s with Some _ => true | None => false end).
    - apply IH. intros k' s' Hin. apply (H k' s'). right. exact Hin.
    - destruct (schema_total s (H k s (or_introl eq_refl))) as [j ->]. cbn [obind].
      apply IH. intros k' s' Hin. apply (H k' s'). right. exact Hin.
  Qed.

  Theorem document_total rels :
    sub (flat_map ks_relation rels) present ->
    (forall k s, In (k, s) table -> sub (ks_schema s) present) ->
    exists j, document strs table names rels = Some j.
  Proof.
    intros Hr Ht. unfold document. destruct (paths_total rels Hr) as [ps ->]. cbn [obind].
    destruct (components_total table 0%nat [] Ht) as [cs ->]. eexists. reflexivity.
  Qed.
End Total.

(** * every $ref the builder writes names a component it emits *)
Section Refs.
  Variable strs : N -> text.
  Variable table : list (rkey * schema).
  Variable names : list text.

  Definition kept (k : rkey) (s : schema) : bool :=
    negb (negb (is_named k) && match atomic_json strs s with Some _ => true | None => false end).

  Lemma key_pos_nth k : forall l i j s, key_pos k l i = Some (j, s) -> exists d, j = (i + d)%nat /\ nth_error l d = Some (k, s).
  Proof.
    induction l as [|[k' s'] l IH]; intros i j s H; [discriminate|]. cbn [key_pos] in H.
    destruct (rkey_eqb k k') eqn:E.
    - apply rkey_eqb_eq in E. subst k'. injection H as <- <-. exists 0%nat. split; [lia|reflexivity].
    - destruct (IH (S i) j s H) as (d & -> & Hd). exists (S d). split; [lia|exact Hd].
  Qed.

  (** a reference is written as a $ref exactly when its entry is kept as a component *)
  Lemma reference_is_ref_iff_kept k i s :
    key_pos k table 0 = Some (i, s) ->
    (kept k s = true -> reference_json strs table names k = Some (jref names i)) /\
    (kept k s = false -> reference_json strs table names k = atomic_json strs s).
  Proof.
    intros H. unfold reference_json, kept. rewrite H. destruct (is_named k); cbn [negb andb].
    - split; [reflexivity|discriminate].
    - destruct (atomic_json strs s) as [j|]; cbn [negb]; split; try reflexivity; discriminate.
  Qed.

  Lemma put_keeps {V} k (v : V) m k' : In k' (map fst m) -> In k' (map fst (put k v m)).
  Proof.
    induction m as [|[k0 v0] m IH]; intros H; [destruct H|]. cbn [put].
    destruct (list_eq_dec N.eq_dec k k0); cbn [map fst] in *; [exact H|]. destruct H as [H|H]; [left; exact H|right; apply IH, H].
  Qed.
  Lemma put_has {V} k (v : V) m : In k (map fst (put k v m)).
  Proof.
    induction m as [|[k0 v0] m IH]; cbn [put]; [left; reflexivity|].
    destruct (list_eq_dec N.eq_dec k k0) as [->|Hne]; cbn [map fst]; [left; reflexivity|right; exact IH].
  Qed.

  Lemma components_keep : forall l i acc cs, components strs table names l i acc = Some cs ->
    forall k', In k' (map fst acc) -> In k' (map fst cs).
  Proof.
    induction l as [|[k s] l IH]; intros i acc cs H k' Hin; cbn [components] in H; [injection H as <-; exact Hin|].
    destruct (negb (is_named k) && match atomic_json strs s with Some _ => true | None => false end); [eapply IH; eassumption|].
    destruct (schema_json strs table names s) as [j|]; cbn [obind] in H; [|discriminate H].
    eapply IH; [exact H|]. apply put_keeps, Hin.
  Qed.

  Lemma components_emit : forall l i acc cs, components strs table names l i acc = Some cs ->
    forall d k s, nth_error l d = Some (k, s) -> kept k s = true -> In (untagged (name_at names (i + d))) (map fst cs).
  Proof.
    induction l as [|[k0 s0] l IH]; intros i acc cs H d k s Hd Hk; [destruct d; discriminate Hd|].
    cbn [components] in H. destruct d as [|d]; cbn [nth_error] in Hd.
    - injection Hd as -> ->. unfold kept in Hk. apply negb_true_iff in Hk. rewrite Hk in H.
      destruct (schema_json strs table names s) as [j|]; cbn [obind] in H; [|discriminate H].
      rewrite Nat.add_0_r. eapply components_keep; [exact H|apply put_has].
    - replace (i + S d)%nat with (S i + d)%nat by lia.
      destruct (negb (is_named k0) && match atomic_json strs s0 with Some _ => true | None => false end); [eapply IH; eassumption|].
      destruct (schema_json strs table names s0) as [j|]; cbn [obind] in H; [|discriminate H]. eapply IH; eassumption.
  Qed.

  Theorem refs_name_emitted_components k i s cs :
    key_pos k table 0 = Some (i, s) -> reference_json strs table names k = Some (jref names i) -> kept k s = true ->
    components strs table names table 0 [] = Some cs ->
    In (untagged (name_at names i)) (map fst cs).
  Proof.
    intros Hk _ Hkept Hc. destruct (key_pos_nth k table 0 i s Hk) as (d & -> & Hd).
    exact (components_emit table 0%nat [] cs Hc d k s Hd Hkept).
  Qed.
End Refs.

(** evaluation, then the builder: total whenever the evaluation succeeds *)
Theorem builder_never_panics strs names P n rs rels table :
  eval_program false P n rs = Ok (rels, table) ->
  exists j, document strs table names rels = Some j.
Proof.
  intros H. destruct (spec_closed P n rs rels table H) as [Hr Ht].
  apply document_total.
  - intros k Hk. destruct (key_pos_in k table 0%nat (Hr k Hk)) as (i & s & Hi). exists i, s. exact Hi.
  - intros k s Hin k' Hk'. destruct (key_pos_in k' table 0%nat (Ht k s Hin k' Hk')) as (i & s' & Hi). exists i, s'. exact Hi.
Qed.
