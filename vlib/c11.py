"""C11 — the syntax tree is lossless and every reported span is exact.
Monitor O11 on the real tokenizer/parser/compiler: tokens and lexical-error spans tile the text
on character boundaries; a token's value is its source slice (stripped as its kind says); the
leaves of the tree are exactly the non-trivia tokens of the parsed prefix, in order, once; a
node's span is the hull of its leaves; diagnostic spans lie in the text on character boundaries
(at most one position past the end)."""
import json
from . import core, progs, texts

SYMBOL_STRIP = {"LiteralString": (1, 1), "AnnotationInline": (1, 1), "AnnotationLine": (1, 0), "PathElementSegment": (1, 0), "Property": (1, 0),
                "IdentifierValue": (0, 0), "IdentifierReference": (0, 0), "Space": (0, 0), "CommentLine": (0, 0), "CommentBlock": (0, 0)}
TRIVIA = {"Space", "CommentLine", "CommentBlock"}


def boundaries_of(text):
    b = {0}
    n = 0
    for c in text:
        n += len(c.encode("utf8"))
        b.add(n)
    return b, n


def leaves_and_spans(tree, toks, problems):
    """returns (leaf indices in order, hull)"""
    if tree is None:
        return [], None
    if "t" in tree:
        i = tree["t"]
        if i >= len(toks):
            problems.append("leaf with unknown token")
            return [], None
        return [i], (toks[i][1], toks[i][2])
    ls = []
    hull = None
    for c in tree["c"]:
        l, h = leaves_and_spans(c, toks, problems)
        ls += l
        if h is not None:
            hull = h if hull is None else (hull[0], h[1])
    got = tuple(tree["s"]) if tree["s"] is not None else None
    if got != hull:
        problems.append("node %s has span %s but the hull of its leaves is %s" % (tree["k"], got, hull))
    return ls, hull


def check_text(ctx, text, r):
    inp = {"text": text}
    raw = text.encode("utf8")
    if r.get("status") != "ok":
        ctx.violation("the tokenizer or parser crashes on this text", inp, "tokens and a tree or errors", str(r.get("msg"))[:300])
        return
    toks = r["tokens"]
    bset, total = boundaries_of(text)
    pieces = sorted([(t[1], t[2], t[0]) for t in toks] + [(e[0], e[1], "<error>") for e in r["lex_errors"]])
    pos = 0
    for s, e, k in pieces:
        if s != pos or e < s or s not in bset or e not in bset:
            ctx.violation("tokens and lexical-error spans do not tile the text on character boundaries", inp, "next piece starts at %d on a boundary" % pos, [s, e, k])
            return
        pos = e
    if pos != total:
        ctx.violation("tokens and lexical-error spans do not cover the text", inp, total, pos)
        return
    for k, s, e, v in toks:
        sl = raw[s:e].decode("utf8", "replace")
        if k in SYMBOL_STRIP:
            a, b = SYMBOL_STRIP[k]
            want = sl[a:len(sl) - b] if b else sl[a:]
            if v != want:
                ctx.violation("a token's text is not the source slice of its span", dict(inp, token=[k, s, e]), want, v)
                return
        elif k == "LiteralNumber" and v != int(sl):
            ctx.violation("a number token's value is not its source slice", dict(inp, token=[k, s, e]), sl, v)
            return
    c = r["cached"]
    api = r.get("api")
    if api is not None:
        if api.get("tree") != c.get("tree"):
            ctx.violation("the public parse entry point returns a tree whose leaves / spans differ from the tokens of the text", inp, "the tree over the text's tokens", "different tree")
            return
        for kind, s, e in api.get("errors", []):
            okb = (s in bset or s == total + 1) and (e in bset or e == total + 1)
            if not (0 <= s <= e <= total + 1) or not okb:
                ctx.violation("a syntax diagnostic span does not lie within the text on character boundaries", inp, "within [0, %d] on boundaries" % (total + 1), [kind, s, e])
                return
        lex = sorted([s, e] for kind, s, e in api.get("errors", []) if kind == "lexicon")
        if lex != sorted(r["lex_errors"]):
            ctx.violation("the lexical diagnostics of the public parse entry point are not the tokenizer's error spans", inp, sorted(r["lex_errors"]), lex)
            return
    if c.get("tree") is not None:
        problems = []
        ls, _ = leaves_and_spans(c["tree"], toks, problems)
        want = [i for i, t in enumerate(toks) if t[0] not in TRIVIA and i < c["end"]]
        if ls != want:
            ctx.violation("the leaves of the syntax tree are not exactly the non-trivia tokens of the parsed prefix, in order, each once",
                          inp, want[:40], ls[:40])
            return
        if problems:
            ctx.violation("a node's span is not the hull of its leaves", inp, "hull", problems[:2])
            return
        if c.get("remaining") is not None:
            s, e = c["remaining"]
            if not (0 <= s <= e <= total + 1):
                ctx.violation("the span of the `remaining input` diagnostic lies outside the text", inp, total, [s, e])
        elif c["end"] < len(toks) and any(t[0] not in TRIVIA for t in toks[c["end"]:]):
            ctx.violation("unparsed tokens remain but no diagnostic is reported", inp, "a diagnostic", "none")


def definition_ranges(ctx):
    """every location the language server attaches to a definition lies within the text of the module it names:
    go-to-definition at every use of generated multi-module workspaces (modules laid out differently)"""
    from . import lsp, lspws
    ok, out = core.ensure_repo_bins()
    if not ok:
        ctx.broken.append("build of the /repo binaries failed: " + out[-300:])
        return
    corpus = [{"main.oal": 'use "defs.oal" as d;\n\n\nlet local = num;\n\nres /x on get -> <{ \'a local,\n  \'b d.item }>;\n',
               "defs.oal": "/* one long line */ let other = str; let item = { 'n num, 'm other };"},
              # a definition that starts at the first byte of its module
              {"main.oal": 'use "defs.oal" as d;\nres /x on get -> <d.item>;\n', "defs.oal": "let item = { 'n num };\nlet 😉 = 1;"[:23] + "\n"}]
    wss = corpus + [lspws.gen_workspace(ctx.rng) for _ in range(12 if ctx.thorough else 4)]
    for i, files in enumerate(wss):
        root = lspws.fresh_dir("c11_def_%d" % i)
        lsp.write_workspace(root, files)
        texts_ = {"file://%s/%s" % (root, n): t for n, t in files.items()}
        b = lspws.bindings(files, root)
        if b is None:
            continue
        srv = lsp.Server(root)
        try:
            srv.initialize()
            srv.open("file://%s/main.oal" % root, texts_["file://%s/main.oal" % root])
            for loc, info in b.items():
                for u in info["uses"]:
                    line, col = lspws.pos_of(texts_[loc], u["is"])
                    r = srv.pos_request("textDocument/definition", loc, line, col)
                    ctx.cov["evaluations"] += 1
                    got = r.get("result")
                    if not isinstance(got, dict) or got.get("uri") not in texts_:
                        continue
                    lines = texts_[got["uri"]].split("\n")
                    rg = got["range"]
                    bad = None
                    for end in ("start", "end"):
                        ln, ch = rg[end]["line"], rg[end]["character"]
                        if ln >= len(lines) and not (ln == len(lines) and ch == 0):
                            bad = "%s line %d of %d" % (end, ln, len(lines))
                        elif ln < len(lines) and ch > len(lines[ln].encode("utf-16-le")) // 2:
                            bad = "%s character %d beyond the %d UTF-16 units of line %d" % (end, ch, len(lines[ln].encode("utf-16-le")) // 2, ln)
                    if (rg["start"]["line"], rg["start"]["character"]) > (rg["end"]["line"], rg["end"]["character"]):
                        bad = "start after end"
                    tgt = lspws.def_target(b, loc, u)
                    if not bad and tgt is not None and b[tgt[0]]["spans"].get(tgt[1]) and got["uri"] == tgt[0]:
                        sp = b[tgt[0]]["spans"][tgt[1]]["span"]
                        want = lspws.rng_of(texts_[tgt[0]], sp[0], sp[1])
                        if rg != want:
                            ctx.violation("the location attached to a definition is not exactly the span of the defining construct",
                                          {"files": files, "file": loc, "position": [line, col]}, want, rg)
                            return
                    if bad:
                        ctx.violation("the location attached to a definition does not lie within the text of the module it names",
                                      {"files": files, "file": loc, "position": [line, col]}, "a range inside " + got["uri"].rsplit("/", 1)[1], {"range": rg, "problem": bad})
                        return
            ctx.count("definition_workspaces")
        finally:
            srv.stop()


def check(ctx):
    ctx.proof = core.proof_stage("C11", thorough=ctx.thorough)
    ok, out = core.ensure_harness()
    if not ok:
        ctx.broken.append("harness build against /repo failed: " + out[-600:])
        return core.finish(ctx)
    if ctx.replay and "files" in json.load(open(ctx.replay))["input"]:
        definition_ranges(ctx)
        return core.finish(ctx)
    if not ctx.replay:
        definition_ranges(ctx)
    if ctx.replay:
        v = json.load(open(ctx.replay))
        tx = [v["input"]["text"]]
    else:
        n = 4500 if ctx.thorough else 300
        ps = progs.gen_programs(ctx, n)
        valid = [t for p in ps for t in p["mods"].values()]
        tx = list(valid)
        tx += [texts.mutate_text(ctx.rng, t) for t in valid for _ in range(2)]
        tx += [texts.unicode_garbage(ctx.rng, 40) for _ in range(n)]
        tx += ["﻿" + valid[0], valid[0].replace("\n", "\r\n"), "let a = { 'x num, 'y str, };\nres /a?{ 'q str, } on get { 'p num, } -> <a>;\n",
               "", " ", "// only a comment", "/* unterminated", "\"unterminated", "`unterminated", "let a = 1X;", "res / on get -> <>;\né",
               "let a = { € 'price num };", "let 😉 = num;"]
        tx += texts.block_comment_texts(4 if ctx.thorough else 3)
        tx += [texts.text_of_kinds(s) for s in texts.seqs_upto(texts.REDUCED[:10], 3)]
        # every text of up to 3 (thorough: 4) characters over the characters on which the token patterns branch
        import itertools
        alpha = ["/", "*", "\"", "`", "'", "@", "a", "1", "X", ":", "-", ">", " ", "\n", "#", "\u00e9", "_", "."]
        for k in range(1, (5 if ctx.thorough else 4)):
            for combo in itertools.product(alpha, repeat=k):
                tx.append("".join(combo))
    if not ctx.replay:
        ok, out = core.ensure_runner()
        if not ok:
            ctx.broken.append("runner build failed: " + out[-300:])
        else:
            from . import pegtie
            small = [{"text": t, "uncached": False} for t in tx if len(t) < 600][:: 3]
            bad = pegtie.compare(small)
            for what, rq, i, m in bad[:10]:
                ctx.broken.append("L2 disagreement (%s): %s impl=[%s] model=[%s]" % (what, json.dumps(rq)[:200], i, m))
            ctx.count("peg_tie_cases", len(small))
    lines = [json.dumps({"text": t}) for t in tx]
    outs = core.run_stateless(core.IMPL, "syntax", lines)
    # the tokenizer tie (Model/Lexer.v): maximal munch = the code's tokens on texts without lexical errors;
    # a text the model cannot tokenize has a lexical error in the code, and conversely
    if not ctx.replay and not ctx.broken:
        from . import pegtie
        lt = [t for t in tx if len(t) < 2000]
        louts = core.run_stateless(core.RUNNER, "lex", [" ".join(str(ord(c)) for c in t) for t in lt])
        by_text = dict(zip(tx, outs))
        for t, lo in zip(lt, louts):
            o = by_text.get(t)
            if lo is None or lo == "SKIPPED" or o in (None, "SKIPPED"):
                continue
            try:
                r = json.loads(o)
            except Exception:
                continue
            if r.get("status") != "ok":
                continue
            real = " ".join("%d:%d:%d" % (pegtie.TK[x[0]], x[1], x[2]) for x in r["tokens"])
            if r["lex_errors"]:
                if lo != "none":
                    ctx.broken.append("tokenizer tie: the code reports a lexical error, the model tokenizes the text: %s" % json.dumps(t)[:300])
                    ctx.count("lex_tie_disagree")
                else:
                    ctx.count("lex_tie_both_error")
            elif lo != real:
                ctx.broken.append("tokenizer tie: %s impl=[%s] model=[%s]" % (json.dumps(t)[:200], real[:200], lo[:200]))
                ctx.count("lex_tie_disagree")
            else:
                ctx.count("lex_tie_agree")
    seen = set()
    for t, o in zip(tx, outs):
        ctx.cov["evaluations"] += 1
        if o == "SKIPPED":
            continue
        try:
            r = json.loads(o)
        except Exception:
            ctx.violation("the tokenizer or parser aborts on this text", {"text": t}, "a result", str(o)[:200])
            continue
        check_text(ctx, t, r)
        if t not in seen:
            seen.add(t)
            if r.get("status") == "ok" and (r["lex_errors"] or (r["cached"].get("remaining") is not None)) and len(t) > 10:
                ctx.count("nontrivial")
            elif r.get("status") == "ok" and len(r["tokens"]) > 30:
                ctx.count("nontrivial")
        if len(ctx.violations) > 5:
            break
        if len(ctx.cov["samples"]) < 3 and r.get("status") == "ok" and r["lex_errors"]:
            ctx.sample({"text": t[:120], "lex_errors": r["lex_errors"][:3], "tokens": len(r["tokens"])})
    # diagnostic spans of the whole pipeline
    if not ctx.replay:
        cand = [{"mods": {"file:///w/main.oal": t}, "main": "file:///w/main.oal"} for t in tx[: (9000 if ctx.thorough else 900)]]
        res = progs.compile_many(cand)
        shown = []
        for c, r in zip(cand, res):
            ctx.cov["evaluations"] += 1
            sp = r.get("span")
            if r.get("status") == "error" and sp:
                t = c["mods"]["file:///w/main.oal"]
                bset, total = boundaries_of(t)
                s, e = sp[1], sp[2]
                okb = (s in bset or s == total + 1) and (e in bset or e == total + 1)
                if not (0 <= s <= e <= total + 1) or not okb:
                    ctx.violation("a diagnostic span does not lie within its module's text on character boundaries", {"text": t}, "within [0, %d]" % (total + 1), sp)
                ctx.count("diagnostic_" + str(r.get("kind")))
                if 0 <= s <= e <= total and any(ord(ch) > 127 for ch in t):
                    shown.append((t, s, e))
        # ... and as the CLI and the playground show them: the character span of the byte span
        from . import c16
        shown = shown[: (3000 if ctx.thorough else 400)]
        for (t, s, e), cs in zip(shown, c16.charspans(shown)):
            ctx.cov["evaluations"] += 1
            raw = t.encode("utf8")
            want = (len(raw[:s].decode("utf8", "ignore")), len(raw[:e].decode("utf8", "ignore")))
            if cs != want:
                ctx.violation("the character span shown for a diagnostic (CharSpan::from) is not the span of its text", {"text": t, "byte_span": [s, e]}, list(want), cs)
                break
            ctx.count("diagnostic_char_spans")
    ctx.cov["distinct_nontrivial"] = ctx.cov["distribution"].get("nontrivial", 0)
    ctx.cov["traces_validated_against_impl"] = ctx.cov["evaluations"]
    ctx.cov["rule"] = ("generated valid modules, two mutations of each (deletions, duplications, swaps, insertion of stray Unicode / quotes / brackets / huge numbers), "
                       "random Unicode garbage, a corpus (BOM, CRLF, trailing commas, unterminated strings/comments/annotations, stray multi-byte characters), all "
                       "token sequences of length <= 3 over 10 kinds as text; all through the real tokenizer + parser; a third of them through the whole pipeline "
                       "for diagnostic spans. distinct_nontrivial = distinct texts with a lexical/syntax error and > 10 characters, or > 30 tokens")
    return core.finish(ctx)
