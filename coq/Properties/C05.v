(** Property C05 — abstraction is free: naming, inlining, wrapping, reordering keep the
    output.

    Proved here (partial), for every syntax tree and environment: parenthesising a
    sub-expression and renaming identifiers by any injective renaming leave the binding
    relation computed by name resolution unchanged (hence acceptance by the resolver and the
    binder of every use). The remaining clauses (let-naming, inlining, eta-wrapping,
    permutation of declarations, trivia, moving declarations to a module: same acceptance
    by inference and same document) need the evaluator model and are carried by the
    rewrite engine of the check (monitor O05) on generated programs; two annotation-related
    exceptions are recorded as known findings (K13, K15). *)
From Oal Require Import Resolve ResolveProofs RewriteProofs.

Theorem C05_paren_resolution_partial : forall en t, lex en (RNode [t]) = lex en t.
Proof. exact paren_resolution. Qed.
Print Assumptions C05_paren_resolution_partial.

Theorem C05_alpha_resolution_partial : forall f, (forall a b, f a = f b -> a = b) ->
  forall t en, lex (ren_env f en) (ren f t) = lex en t.
Proof. exact alpha_resolution. Qed.
Print Assumptions C05_alpha_resolution_partial.

Theorem C05_alpha_walk_partial : forall f, (forall a b, f a = f b -> a = b) -> forall t en,
  run (linearize (ren f t)) (ren_env f en) [] =
  match lex en t with inl ds => inl (ren_env f en, ds) | inr e => inr e end.
Proof. exact alpha_walk. Qed.
Print Assumptions C05_alpha_walk_partial.

Example C05_injective_renaming_exists : forall a b : N, N.succ a = N.succ b -> a = b.
Proof. exact N.succ_inj. Qed.
