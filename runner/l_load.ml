(* layer L7: the module loader.
   L <base> ; <id> G <t>* ; <id> B ; <id> M ; ... | <ids that fail to compile>
   (import targets may carry a spelling suffix ":k", ignored by the model)
   output: <verdict> | <is_valid/load/parse events> | <compile events>
   J <dir segments, innermost last, separated by /> <relative reference>
   output: joined path *)
open Conv
open Loader

let target w = int_of_string (Stdlib.List.hd (String.split_on_char ':' w))

let show_ev = function
  | EIsValid l -> "V" ^ string_of_int (int_of_n l)
  | ELoad l -> "L" ^ string_of_int (int_of_n l)
  | EParse l -> "P" ^ string_of_int (int_of_n l)
  | ECompile l -> "C" ^ string_of_int (int_of_n l)

let show_err = function
  | ErrLoad l -> "load:" ^ string_of_int (int_of_n l)
  | ErrParse l -> "parse:" ^ string_of_int (int_of_n l)
  | ErrInvalidModule (t, f) -> Printf.sprintf "invalid:%d:%d" (int_of_n t) (int_of_n f)
  | ErrCycle l -> "cycle:" ^ string_of_int (int_of_n l)
  | ErrCompile l -> "compile:" ^ string_of_int (int_of_n l)

let show_trace tr =
  let evs = Stdlib.List.rev tr in
  let is_c = function ECompile _ -> true | _ -> false in
  String.concat " " (Stdlib.List.map show_ev (Stdlib.List.filter (fun e -> not (is_c e)) evs))
  ^ " | "
  ^ String.concat " " (Stdlib.List.map show_ev (Stdlib.List.filter is_c evs))

let split_on (sep : string) (ws : string list) : string list list =
  let rec go cur acc = function
    | [] -> Stdlib.List.rev (Stdlib.List.rev cur :: acc)
    | w :: rest when w = sep -> go [] (Stdlib.List.rev cur :: acc) rest
    | w :: rest -> go (w :: cur) acc rest
  in
  go [] [] ws

let run () =
  each_line (fun line ->
      match words line with
      | "L" :: base :: rest ->
          let parts = split_on "|" rest in
          let files_ws, fail_ws =
            match parts with [ a; b ] -> (a, b) | [ a ] -> (a, []) | _ -> ([], [])
          in
          let tbl = Hashtbl.create 16 in
          Stdlib.List.iter
            (fun grp ->
              match grp with
              | id :: "G" :: ts -> Hashtbl.replace tbl (int_of_string id) (Good (Stdlib.List.map (fun w -> n_of_int (target w)) ts))
              | [ id; "B" ] -> Hashtbl.replace tbl (int_of_string id) Bad
              | [ id; "M" ] -> Hashtbl.replace tbl (int_of_string id) Missing
              | _ -> ())
            (split_on ";" files_ws);
          let fails = Stdlib.List.map int_of_string fail_ws in
          let fs n = match Hashtbl.find_opt tbl (int_of_n n) with Some f -> f | None -> Missing in
          let cok n = not (Stdlib.List.mem (int_of_n n) fails) in
          (match load fs cok topo_kahn (nat_of_int 10000) (n_of_int (int_of_string base)) with
          | LOk (_, tr) -> print_endline ("ok | " ^ show_trace tr)
          | LErr (e, tr) -> print_endline ("err:" ^ show_err e ^ " | " ^ show_trace tr)
          | LFuel -> print_endline "fuel")
      | [ "J"; dir; rel ] ->
          let names = Hashtbl.create 16 in
          let back = Hashtbl.create 16 in
          let id s =
            match Hashtbl.find_opt names s with
            | Some i -> i
            | None ->
                let i = Hashtbl.length names + 1 in
                Hashtbl.replace names s i;
                Hashtbl.replace back i s;
                i
          in
          let dsegs = Stdlib.List.filter (fun s -> s <> "") (String.split_on_char '/' dir) in
          let d = Stdlib.List.rev_map (fun s -> n_of_int (id s)) dsegs in
          let r =
            Stdlib.List.map
              (fun s -> if s = "." then Dot else if s = ".." then Up else Name (n_of_int (id s)))
              (Stdlib.List.filter (fun s -> s <> "") (String.split_on_char '/' rel))
          in
          let res = join d r in
          print_endline
            ("/" ^ String.concat "/" (Stdlib.List.rev_map (fun n -> Hashtbl.find back (int_of_n n)) res))
      | _ -> print_endline "?")
