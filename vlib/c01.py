"""C01 — accepted programs never go wrong. Monitor O01: every generated program (accepted
stream, ill-typed stream, cyclic stream) ends in a document or a located error; panics,
aborts, stack overflows and hangs are violations unless they fall in a recorded class."""
import json
from . import core, progs, known, cyc, evaltie


def mutate_illtyped(rng, src):
    """inject one kind error / unbound name / duplicate / bad status into an accepted program"""
    reps = [(" num", " <>"), (" str", " (get -> <>)"), ("{ ", "{ 5XX, "), ("[", "[<>, "), ("status=200", "status=999"), ("status=200", "status=70000"), ("status=404", "status=65536"), ("status=201", "status=4294967296"),
            ("status=404", 'status="x"'), (" -> ", " -> 42 :: "), ("let ", "let dup = num;\nlet dup = str;\nlet ", ),
            ("res /", "res nosuch /"), ("media=\"", "media=12 ,headers=\"")]
    for _ in range(6):
        a = rng.choice(reps)
        if a[0] in src:
            k = rng.randrange(src.count(a[0]))
            parts = src.split(a[0])
            return a[0].join(parts[:k + 1]) + a[1] + a[0].join(parts[k + 1:]) if k + 1 < len(parts) else src
    return src


# (site index, tag code, form, program realising the triple)
TEMPLATES = [
    (0, "6", "content", "res /t on get : <{}> -> <>;"),
    (0, "6", "ranges", "res /t on get : (<> :: <status=200,{}>) -> <>;"),
    (0, "5", "object", "res /t on put : { 'a num } -> <>;"),
    (0, "5", "ref:object", "let @o = { 'a num };\nres /t on put : @o -> <>;"),
    (0, "5", "op", "res /t on put : ({ 'a num } & { 'b num }) -> <>;"),
    (0, "3", "prim", "res /t on put : num -> <>;"),
    (1, "6", "ranges", "res /t on get -> (<> :: <status=200,{}>);"),
    (1, "6", "content", "res /t on get -> <status=201, {}>;"),
    (1, "5", "ref:object", "let @o = { 'a num };\nres /t on get -> @o;"),
    (1, "8", "array", "res /t on get -> [num];"),
    (2, "9", "uri", "res /t on get -> <>;"),
    (2, "9", "ref:uri", "let @u = /t;\nres @u on get -> <>;"),
    (2, "9", "op", "res (/a | /b) on get -> <>;"),
    (3, "7", "transfer", "let o = get -> <>;\nres /t on o;"),
    (4, "4", "relation", "let r = /t on get -> <>;\nres r;"),
    (4, "9", "uri", "res /t;"),
    (4, "4", "ref:relation", "let @r = /t on get -> <>;\nres @r;"),
    (4, "4", "op", "let r = /a on get -> <>;\nlet s = /b on get -> <>;\nres (r | s);"),
    (4, "4", "ref:recursion", "let f y = y;\nres f (/a on get -> <>);\nres (rec r (f r));"),
    (5, "P", "property", "res /t/{ 'id num } on get -> <>;"),
    (6, "3", "prim", "res /t on get -> <str>;"),
    (6, "5", "object", "res /t on get -> <{ 'a num }>;"),
    (6, "8", "array", "res /t on get -> <[num]>;"),
    (6, "10", "op", "res /t on get -> <num ~ { 'a str }>;"),
    (6, "5", "op", "res /t on get -> <{ 'a num } & { 'b num }>;"),
    (6, "5", "ref:object", "let @o = { 'a num };\nres /t on get -> <@o>;"),
    (6, "5", "ref:ref:object", "let @o = { 'a num };\nlet @p = @o;\nres /t on get -> <@p>;"),
    (6, "5", "ref:object", "res /t on get -> <rec r { 'kids [r] }>;"),
    (6, "4", "relation", "res /t on get -> <(/u on get -> <>)>;"),
    (6, "9", "uri", "res /t on get -> <uri>;"),
    (7, "0", "string", "let m = \"text/plain\";\nres /t on get -> <media=m, {}>;"),
    (8, "5", "object", "res /t on get -> <headers={ 'a num }, {}>;"),
    (8, "5", "ref:object", "let @h = { 'a num };\nres /t on get -> <headers=@h, {}>;"),
    (8, "5", "op", "res /t on get -> <headers=({ 'a num } & { 'b num }), {}>;"),
    (8, "5", "ref:op", "let @h = { 'a num } & { 'b num };\nres /t on get -> <headers=@h, {}>;"),
    (8, "5", "recursion", "let o = { 'a (/x on get -> <headers=o, {}>) };\nres / on get -> <o>;"),
    (9, "1", "number", "let s = 200;\nres /t on get -> <status=s, {}>;"),
    (9, "2", "status", "let s = 4XX;\nres /t on get -> <status=s, {}>;"),
    (10, "P", "property", "let p = 'a num;\nres /t on get -> <{ p }>;"),
    (11, "5", "ref:object", "let @o = { 'a num };\nres /t on get -> <@o & { 'b num }>;"),
    (11, "3", "op", "res /t on get -> <(num | str) ~ int>;"),
    (12, "6", "ranges", "let a = <> :: <status=200,{}>;\nres /t on get -> a :: <status=404,{}>;"),
    (13, "P", "property", "let p = 'a num;\nres /t on get -> <{ p! }>;"),
    (14, "8", "op", "res /t on get -> <{ 'a [num] | [str] }>;"),
    (15, "F", "lambda", "let f x = [x];\nres /t on get -> <f num>;"),
    (16, "9", "uri", "res (concat (/a) (/b)) on get -> <>;"),
    (16, "9", "op", "res (concat (/a | /b) (/c)) on get -> <>;"),
    (17, "5", "ref:object", "let a = { 'n [a] };\nres /t on get -> <a>;"),
]


def cast_table_tie(ctx):
    """every (site, tag, form) triple realised by a template program: the model's cast verdict
    must be the implementation's outcome (panic or not)"""
    ok, out = core.ensure_runner()
    if not ok:
        ctx.broken.append("runner build failed: " + out[-300:])
        return
    lines = ["K %d %s %s" % (s, t, k) for s, t, k, _ in TEMPLATES]
    model = core.run_stateless(core.RUNNER, "cast", lines)
    ps = [{"mods": {"file:///w/main.oal": src + "\n"}, "main": "file:///w/main.oal"} for _, _, _, src in TEMPLATES]
    impl = progs.compile_many(ps)
    for l, (s, t, k, src), m, r in zip(lines, TEMPLATES, model, impl):
        ctx.cov["evaluations"] += 1
        got = "panic" if r.get("status") in ("panic", "crash") else ("ok" if r.get("status") in ("ok",) else "rejected:" + str(r.get("kind")))
        exp = "panic" if (m or "").startswith("panic") else m
        if got != exp:
            if len(ctx.broken) < 20:
                ctx.broken.append("cast-table disagreement: %s [%s] impl=%s (%s) model=%s" % (l, src, got, str(r.get("msg"))[:80], m))
        else:
            ctx.cov["traces_validated_against_impl"] += 1
        if m == "panic":
            ctx.broken.append("the model reports an unclassified cast failure for " + l)
    ctx.count("cast_table_templates", len(lines))


ARITY = [
    "res / on get -> f str;\nlet f x y = { 'a x, 'b y };\n",
    "let f x y = { 'a x, 'b y };\nres / on get -> f str;\n",
    "res / on get -> f str num bool;\nlet f x y = { 'a x, 'b y };\n",
    "let f x y = { 'a x, 'b y };\nres / on get -> f str num bool;\n",
    "let u = concat (/a) (/b) (/c);\nres u on get -> {};\n",
    "let u = concat (/a);\nres u on get -> {};\n",
    "let g h = h str;\nlet f x y = { 'a x, 'b y };\nres / on get -> <g f>;\n",
    "let f x = x;\nlet g = f;\nres / on get -> <g str num>;\n",
    # a relation (not wrapped in a content) as the range, the domain or a :: operand of a transfer
    "let next = /items/{ 'id int } on get -> { 'name str };\nres /items on post : { 'name str } -> <status=201, next>, get -> next;\n",
    "let link = /l on get -> <>;\nres /a on put : link -> link :: <status=404, {}>;\n",
    "let r = / on get -> r;\nres r;\n",
    # the name of a rec binder or of a parameter used after its scope has ended: not in scope, never a panic
    "let @pair = { 'first rec x { 'next x }, 'second x };\nres / on get -> <@pair>;\n",
    "res /tree on get -> (rec x { 'label str, 'children [x] });\nres /node on get -> <x>;\n",
    "let f y = { 'a y };\nlet g = { 'b y };\nres / on get -> <g>;\n",
]


# several modules with recursive declarations at the same place of their trees (the same node index): every implicit
# component is keyed by its module too
MODULE_TWINS = [
    {"file:///w/a.oal": "let label = str;\nlet list = { 'next list };\n", "file:///w/b.oal": "let home = / on get -> <home>;\n",
     "file:///w/main.oal": 'use "a.oal" as a;\nuse "b.oal" as b;\nres /items on get -> a.list;\nres b.home;\n'},
    {"file:///w/a.oal": "let t = { 'k [t] };\n", "file:///w/b.oal": "let t = /x on get -> <t> :: <status=404, (rec r [r])>;\n",
     "file:///w/main.oal": 'use "a.oal" as a;\nuse "b.oal" as b;\nres /a on get -> <a.t>;\nres b.t;\n'},
    {"file:///w/x/m.oal": "let t = { 'n num, 'kids [t] };\n", "file:///w/y/m.oal": "let t = [{ 'up t }];\n",
     "file:///w/main.oal": 'use "x/m.oal" as x;\nuse "y/m.oal" as y;\nres /t on get -> <x.t> :: <status=404, y.t>;\n'},
]


def concat_nests():
    """nested applications of the built-in concat over root, literal, variable and parameterised URIs: values of the
    standard library fed back into it (the evaluator's invariants on URI values must survive every combination)"""
    import itertools
    ops = ["(/)", "/a", "/a/b", "/{ 'id int }", "(/x?{ 'q str })", "/a/"]
    out = []
    for a, b, c in itertools.product(ops, repeat=3):
        out.append("let u = concat (concat %s %s) %s;\nres u on get -> <>;\n" % (a, b, c))
        out.append("let u = concat %s (concat %s %s);\nres u on get -> <>;\n" % (a, b, c))
    out.append("let root = /;\nlet prefix = concat root (/);\nlet items = concat prefix /items;\nlet item = concat items /{ 'id int };\n"
               "res items on get -> [{ 'name str }];\nres item on get -> { 'name str };\n")
    return out


def mutate_arity(rng, text):
    """drop or duplicate one argument of an application `f a b` of a generated function (names fN)"""
    import re
    apps = [m for m in re.finditer(r"\b(f\d+)((?: (?:\([^()]*\)|[A-Za-z0-9_@]+))+)", text) if not text[:m.start()].rstrip().endswith("let")]
    if not apps:
        return "res / on get -> fzz str;\nlet fzz x y = { 'a x, 'b y };\n" + text
    m = rng.choice(apps)
    args = re.findall(r" (\([^()]*\)|[A-Za-z0-9_@]+)", m.group(2))
    if rng.random() < 0.5 and len(args) > 1:
        args = args[:-1]
    else:
        args = args + [args[-1]]
    return text[:m.start()] + m.group(1) + "".join(" " + a for a in args) + text[m.end():]


def check(ctx):
    ctx.proof = core.proof_stage("C01", thorough=ctx.thorough)
    ok, out = core.ensure_harness()
    if not ok:
        ctx.broken.append("harness build against /repo failed: " + out[-600:])
        return core.finish(ctx)
    for k in core.known_findings("C01"):
        if k.get("status") == "known":
            mods = k["witness"]["mods"]
            r = progs.compile_many([{"mods": mods, "main": k["witness"]["main"]}])[0]
            if r.get("status") == "panic" and known.classify_panic(r.get("msg"), mods) == k["id"]:
                ctx.known(k["what"])
            else:
                core.log("stale known finding %s: %s" % (k["id"], str(r)[:200]))
    if ctx.replay:
        v = json.load(open(ctx.replay))
        ps = [dict(v["input"]["program"], features=[], ast=None)]
    else:
        cast_table_tie(ctx)
        n = 12000 if ctx.thorough else 700
        ps = progs.gen_programs(ctx, n)
        ill = []
        for p in ps[: n // 2]:
            q = {"mods": dict(p["mods"]), "main": p["main"], "features": ["ill-typed"], "ast": None}
            q["mods"][q["main"]] = mutate_illtyped(ctx.rng, q["mods"][q["main"]])
            ill.append(q)
        cy = [cyc.gen_cyclic(ctx.rng) for _ in range(n // 2)]
        ps = ps + ill + [c[0] for c in cy]
        for s in cyc.CORPUS + ARITY + concat_nests():
            ps.append({"mods": {"file:///w/main.oal": s}, "main": "file:///w/main.oal", "features": ["corpus"], "ast": None})
        # applications with an argument too few or too many, before and after the declaration of the function
        for p in progs.gen_programs(ctx, 300 if ctx.thorough else 60, start=9000):
            q = {"mods": dict(p["mods"]), "main": p["main"], "features": ["arity"], "ast": None}
            q["mods"][q["main"]] = mutate_arity(ctx.rng, q["mods"][q["main"]])
            ps.append(q)
    if not ctx.replay:
        for mods in MODULE_TWINS:
            ps.append({"mods": mods, "main": "file:///w/main.oal", "features": ["module-twins"], "ast": None})
        ps += progs.shared_corpus()
    progs.feature_stats(ctx, ps)
    if not ctx.replay:
        # the evaluator tie: outcome (document, located error, panic site) of eval.rs = outcome of Model/Eval.v
        k = 4500 if ctx.thorough else 300
        evaltie.run(ctx, ps[:k // 2] + ps[-k // 2:] + evaltie.known_witnesses() + evaltie.repo_corpus())
    res = progs.compile_many(ps)
    seen = set()
    for p, r in zip(ps, res):
        ctx.cov["evaluations"] += 1
        st = r.get("status")
        inp = {"program": progs.source_of(p)}
        if st == "skipped":
            continue
        if st == "ok":
            ctx.count("outcome_document")
        elif st == "error":
            ctx.count("outcome_error_%s_%s" % (r.get("phase"), r.get("kind")))
            if r.get("phase") == "eval" and r.get("span") is None:
                ctx.violation("evaluation failed with an error that carries no source location", inp, "a located error", r)
        elif st == "panic":
            kid = known.classify_panic(r.get("msg"), p["mods"])
            if kid:
                ctx.count("known_class_" + kid)
            else:
                ctx.violation("an accepted program makes the back end panic", inp, "a document or a located error", r.get("msg"))
        else:
            ctx.violation("the pipeline aborts, overflows the stack or hangs on this program", inp, "a document or a located error", r.get("msg"))
        key = json.dumps(p["mods"], sort_keys=True)
        if key not in seen:
            seen.add(key)
            if st == "ok" and len(p["features"]) >= 4:
                ctx.count("nontrivial")
        if len(ctx.cov["samples"]) < 3 and st == "ok" and len(p["features"]) > 8:
            ctx.sample({"program": p["mods"][p["main"]][:400], "features": p["features"]})
    ctx.cov["distinct_nontrivial"] = ctx.cov["distribution"].get("nontrivial", 0)
    ctx.cov["rule"] = ("three streams through the real load+compile+eval+emit (in-memory loader): generated accepted programs (1-3 modules), the same with one "
                       "injected kind error / unbound name / duplicate / bad status, and random cyclic declaration graphs (schemas, functions, aliases, contents); "
                       "each outcome must be a document or a located error. distinct_nontrivial = distinct accepted programs using >= 4 language features")
    ctx.assumptions = ["stack depth and wall-clock behaviour are observed on the real code only (nesting depth of generated programs <= 6)",
                       "known classes K1, K2, K10, K11, K12 are keyed by (cast site, value form) from the panic message"]
    return core.finish(ctx)
