(** Property C17 — go-to-definition and find-references mirror the compiler's binding
    relation. Statements about the handlers' search functions over a resolved folder (any
    number of uses and modules), under the span discipline of the syntax tree ([ordered]:
    uses are disjoint and in document order — C11). That the definitions attached to the
    uses are the lexical binders is C08; the conversion of spans to editor ranges is C16. *)
From Coq Require Import Lia.
From Oal Require Import Handlers HandlersProofs.

Theorem C17_goto_correct : forall us, ordered us -> forall u idx, In u us -> u_start u <= idx < u_end u ->
  definition_at us idx = u_def u.
Proof. exact goto_correct. Qed.
Print Assumptions C17_goto_correct.

Theorem C17_goto_outside_is_empty : forall us idx,
  (forall u, In u us -> ~ (u_start u <= idx < u_end u)) -> definition_at us idx = None.
Proof. exact goto_outside. Qed.
Print Assumptions C17_goto_outside_is_empty.

Theorem C17_refs_exact : forall us d u, In u (references_of us d) <-> In u us /\ u_def u = Some d.
Proof. exact refs_exact. Qed.
Print Assumptions C17_refs_exact.

Theorem C17_refs_inverse : forall us d, ordered us -> forall u, In u (references_of us d) ->
  definition_at us (u_istart u) = Some d.
Proof. exact refs_inverse. Qed.
Print Assumptions C17_refs_inverse.

Example C17_ordered_inhabited :
  ordered [mk_use 4 9 6 9 (Some 1); mk_use 12 13 12 13 None; mk_use 20 25 20 25 (Some 1)].
Proof. cbn. repeat split; try lia. Qed.
