(** Property C09 — recursion is cut into named components, finitely and without aliasing.

    Proved here, for every definition graph (any number of declarations, parallel edges, self
    loops) and every [scc] meeting the contract of petgraph's kosaraju_scc: the recursion
    check terminates within [length g + 1] rounds, accepts exactly the graphs all of whose
    cycles pass through a referential (schema, not uri-like) declaration, and rejects the
    others — so function cycles, content cycles and plain alias cycles are errors; the shared
    [inbounds] buffer of the code is harmless.
    Evaluator side, on the evaluator model (Model/Eval.v, tied to eval.rs on every run):
    evaluation of a stratified first-order program -- every cycle of uses passes through a
    declaration that the evaluator memoises in its reference table, which is what the check
    above guarantees of accepted programs and what the tie re-checks on each of them -- never
    runs out of an explicit amount of fuel ([C09_evaluation_is_finite]); in the resulting Spec
    every recursion point is a reference to an entry of the reference table
    ([C09_recursion_points_resolve]); a program with an uncut cycle exhausts any fuel (witness).
    Carried by the monitors (not proved): distinct instantiations get distinct components
    (instantiation monitor, relocation test); the link between the graph of [cycles_check] and
    [Strat.stratified] is the tie, not a theorem. *)
From Oal Require Import Cycles CyclesProofs.
From Oal Require Eval Strat TermProofs ClosureProofs.

Theorem C09_cycles_check_spec :
  forall referential scc, scc_spec scc -> forall fuel ns g marks,
  length g < fuel ->
  match cycles_check referential scc fuel ns g marks with
  | COk _ => ~ bad_cycle referential g
  | CErr _ => bad_cycle referential g
  | CFuel => False
  end.
Proof. exact cycles_check_spec. Qed.
Print Assumptions C09_cycles_check_spec.

Theorem C09_cycles_check_terminates :
  forall referential scc, scc_spec scc -> forall ns g,
  cycles_check referential scc (S (length g)) ns g [] <> CFuel.
Proof. exact cycles_check_terminates. Qed.
Print Assumptions C09_cycles_check_terminates.

Theorem C09_accepted_iff_every_cycle_cut :
  forall referential scc, scc_spec scc -> forall ns g,
  (exists m, cycles_check referential scc (S (length g)) ns g [] = COk m) <-> ~ bad_cycle referential g.
Proof. exact accepted_iff_every_cycle_cut. Qed.
Print Assumptions C09_accepted_iff_every_cycle_cut.

(** corollaries named in the property: a cycle made of functions / contents / aliases only
    (no referential declaration on it) is a bad cycle, hence rejected *)
Theorem C09_unreferential_self_loop_rejected :
  forall referential scc, scc_spec scc -> forall ns g n,
  In (n, n) g -> referential n = false ->
  forall m, cycles_check referential scc (S (length g)) ns g [] <> COk m.
Proof.
  intros referential scc H ns g n Hin Hn m E.
  apply (proj1 (accepted_iff_every_cycle_cut referential scc H ns g)); [eauto|].
  exists n. apply walkP_one; assumption.
Qed.
Print Assumptions C09_unreferential_self_loop_rejected.

(** non-vacuity of the contract: a concrete scc function meets it on a concrete graph *)
Example C09_bad_cycle_example :
  bad_cycle (fun n => N.eqb n 2) [(0, 1); (1, 0); (1, 2); (2, 2)]%N.
Proof.
  exists 0%N. eapply walkP_cons; [left; reflexivity|reflexivity|].
  apply walkP_one; [right; left; reflexivity|reflexivity].
Qed.

(** * the evaluator side *)
Theorem C09_evaluation_is_finite : forall P rk R Z rs,
  Strat.strat_okb P rk R Z rs = true ->
  forall n, TermProofs.B R Z (TermProofs.U P Eval.st0) R Z <= n -> Eval.eval_program false P n rs <> Eval.Fuel.
Proof. exact TermProofs.program_terminates. Qed.
Print Assumptions C09_evaluation_is_finite.

Theorem C09_recursion_points_resolve : forall P n rs rels table,
  Eval.eval_program false P n rs = Eval.Ok (rels, table) ->
  (forall k, In k (flat_map ClosureProofs.ks_relation rels) -> In k (map fst table)) /\
  (forall k sc, In (k, sc) table -> forall k', In k' (ClosureProofs.ks_schema sc) -> In k' (map fst table)).
Proof. exact ClosureProofs.spec_closed. Qed.
Print Assumptions C09_recursion_points_resolve.

Theorem C09_uncut_cycle_loops_refuted :
  Strat.stratified TermProofs.ex_loop TermProofs.ex_loop_rs = false /\
  Eval.eval_program false TermProofs.ex_loop 200 TermProofs.ex_loop_rs = Eval.Fuel.
Proof. exact TermProofs.ex_loop_not_stratified. Qed.
Print Assumptions C09_uncut_cycle_loops_refuted.

Example C09_recursive_program_is_stratified : Strat.stratified ClosureProofs.ex_rec_P ClosureProofs.ex_rec_rs = true.
Proof. exact TermProofs.ex_rec_stratified. Qed.
