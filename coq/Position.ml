open BinNat
open BinNums
open Datatypes
open List
open Text

(** val p2u_go :
    text -> coq_N -> coq_N -> coq_N -> coq_N -> coq_N -> coq_N **)

let rec p2u_go t pl pc line ch idx =
  match t with
  | [] -> idx
  | c :: t' ->
    if N.eqb line pl
    then if (||) ((||) (N.eqb ch pc) (is_lf c)) (is_cr c)
         then idx
         else p2u_go t' pl pc line (N.add ch (len16 c)) (N.add idx (len8 c))
    else if is_lf c
         then p2u_go t' pl pc (N.add line (Npos Coq_xH)) ch
                (N.add idx (len8 c))
         else p2u_go t' pl pc line ch (N.add idx (len8 c))

(** val position_to_utf8 : text -> coq_N -> coq_N -> coq_N **)

let position_to_utf8 t pl pc =
  p2u_go t pl pc N0 N0 N0

(** val u2p_go : text -> coq_N -> coq_N -> coq_N -> coq_N -> coq_N * coq_N **)

let rec u2p_go t index line ch idx =
  match t with
  | [] -> (line, ch)
  | c :: t' ->
    if N.leb index idx
    then (line, ch)
    else if is_lf c
         then u2p_go t' index (N.add line (Npos Coq_xH)) N0
                (N.add idx (len8 c))
         else u2p_go t' index line (N.add ch (len16 c)) (N.add idx (len8 c))

(** val utf8_to_position : text -> coq_N -> coq_N * coq_N **)

let utf8_to_position t index =
  u2p_go t index N0 N0 N0

(** val utf8_range_to_position :
    text -> coq_N -> coq_N -> (coq_N * coq_N) * (coq_N * coq_N) **)

let utf8_range_to_position t s e =
  ((utf8_to_position t s), (utf8_to_position t e))

(** val u2c_go : text -> coq_N -> coq_N -> coq_N -> coq_N **)

let rec u2c_go t index idx ci =
  match t with
  | [] -> ci
  | c :: t' ->
    if N.leb index idx
    then ci
    else u2c_go t' index (N.add idx (len8 c)) (N.add ci (Npos Coq_xH))

(** val utf8_to_char_index : text -> coq_N -> coq_N **)

let utf8_to_char_index t index =
  u2c_go t index N0 N0

(** val split_lines : text -> text list **)

let rec split_lines = function
| [] -> [] :: []
| c :: t' ->
  (match split_lines t' with
   | [] -> [] :: []
   | l :: ls -> if is_lf c then [] :: (l :: ls) else (c :: l) :: ls)

(** val content : text -> text **)

let rec content = function
| [] -> []
| c :: l' -> if is_cr c then [] else c :: (content l')

(** val col8 : text -> coq_N -> coq_N **)

let rec col8 l k =
  match l with
  | [] -> N0
  | c :: l' ->
    if N.eqb k N0
    then N0
    else if N.ltb k (len16 c)
         then N.add (len8 c) (len8s l')
         else N.add (len8 c) (col8 l' (N.sub k (len16 c)))

(** val spec_go : text list -> coq_N -> coq_N -> coq_N **)

let rec spec_go ls pl pc =
  match ls with
  | [] -> N0
  | l :: ls' ->
    if N.eqb pl N0
    then col8 (content l) pc
    else (match ls' with
          | [] -> len8s l
          | _ :: _ ->
            N.add (N.add (len8s l) (Npos Coq_xH))
              (spec_go ls' (N.sub pl (Npos Coq_xH)) pc))

(** val pos_spec : text -> coq_N -> coq_N -> coq_N **)

let pos_spec t pl pc =
  spec_go (split_lines t) pl pc

(** val client_off16 : coq_N list -> coq_N -> coq_N -> coq_N -> coq_N **)

let rec client_off16 u l c off =
  if N.eqb l N0
  then N.add off c
  else (match u with
        | [] -> off
        | x :: u' ->
          client_off16 u'
            (if N.eqb x coq_LF then N.sub l (Npos Coq_xH) else l) c
            (N.add off (Npos Coq_xH)))

(** val select16 :
    coq_N list -> (coq_N * coq_N) -> (coq_N * coq_N) -> coq_N list **)

let select16 u p q =
  let a = client_off16 u (fst p) (snd p) N0 in
  let b = client_off16 u (fst q) (snd q) N0 in
  firstn (N.to_nat (N.sub b a)) (skipn (N.to_nat a) u)
