//! Layers L1 / L2: the tokenizer and the parser.
//! {"text": "..."}  or  {"kinds": ["KeywordLet", ...]}, optional "uncached": true
//! -> tokens, lexical error spans, the tree (kinds, spans, leaf token indices), grammar errors,
//!    end cursor, counters; with "uncached" the same for the parser without memo table.
use oal_model::grammar::{Context, ParserMatch};
use oal_model::lexicon::{Lexeme, TokenList};
use oal_model::locator::Locator;
use oal_syntax::lexer::{Token, TokenKind, TokenValue};
use oal_syntax::parser::{parse_program, Gram};
use serde_json::{json, Value};
use std::collections::HashMap;
use std::io::{BufRead, Write};

const KINDS: [TokenKind; 63] = [
    TokenKind::Space, TokenKind::CommentLine, TokenKind::CommentBlock, TokenKind::PrimitiveNum, TokenKind::PrimitiveStr,
    TokenKind::PrimitiveUri, TokenKind::PrimitiveBool, TokenKind::PrimitiveInt, TokenKind::PathElementRoot,
    TokenKind::PathElementSegment, TokenKind::MethodGet, TokenKind::MethodPut, TokenKind::MethodPost, TokenKind::MethodPatch,
    TokenKind::MethodDelete, TokenKind::MethodOptions, TokenKind::MethodHead, TokenKind::ContentMedia, TokenKind::ContentHeaders,
    TokenKind::ContentStatus, TokenKind::KeywordLet, TokenKind::KeywordRes, TokenKind::KeywordUse, TokenKind::KeywordAs,
    TokenKind::KeywordOn, TokenKind::KeywordRec, TokenKind::IdentifierValue, TokenKind::IdentifierReference, TokenKind::LiteralNumber,
    TokenKind::LiteralString, TokenKind::LiteralHttpStatus, TokenKind::Property, TokenKind::ControlBraceLeft, TokenKind::ControlBraceRight,
    TokenKind::ControlParenLeft, TokenKind::ControlParenRight, TokenKind::ControlBracketLeft, TokenKind::ControlBracketRight,
    TokenKind::ControlChevronLeft, TokenKind::ControlChevronRight, TokenKind::ControlSemicolon, TokenKind::ControlFullStop,
    TokenKind::ControlComma, TokenKind::OperatorExclamationMark, TokenKind::OperatorQuestionMark, TokenKind::OperatorAmpersand,
    TokenKind::OperatorTilde, TokenKind::OperatorVerticalBar, TokenKind::OperatorEqual, TokenKind::OperatorColon,
    TokenKind::OperatorDoubleColon, TokenKind::OperatorArrow, TokenKind::AnnotationLine, TokenKind::AnnotationInline,
    // padding so that the array length is fixed; duplicates are harmless for the name lookup
    TokenKind::Space, TokenKind::Space, TokenKind::Space, TokenKind::Space, TokenKind::Space, TokenKind::Space, TokenKind::Space,
    TokenKind::Space, TokenKind::Space,
];

fn kind_by_name(name: &str) -> Option<TokenKind> {
    KINDS.iter().find(|k| format!("{:?}", k) == name).copied()
}

fn counters(dbg: &str) -> Value {
    let num = |key: &str| -> u64 {
        dbg.split(key)
            .nth(1)
            .and_then(|r| r.trim_start_matches(|c: char| c == ':' || c == ' ').split(|c: char| !c.is_ascii_digit()).next().map(|s| s.to_owned()))
            .and_then(|s| s.parse().ok())
            .unwrap_or(0)
    };
    json!({"arena_size": num("arena_size"), "input_length": num("input_length"), "reads": num("input_reads"),
           "hits": num("cache_hits"), "cache_size": num("cache_size")})
}

fn digest_of(v: &Value) -> String {
    use std::hash::{Hash, Hasher};
    let mut h = std::collections::hash_map::DefaultHasher::new();
    v.to_string().hash(&mut h);
    format!("{:016x}", h.finish())
}

fn run_parser(tokens: TokenList<Token>, cached: bool, starts: &HashMap<usize, usize>, ntok: usize, want_tree: bool) -> Value {
    let mut ctx: Context<(), Gram> = Context::new(tokens);
    if !cached {
        ctx = ctx.without_cache();
    }
    let cursor = ctx.head();
    let res = parse_program(&mut ctx, cursor);
    let cnt = counters(&format!("{:?}", ctx));
    match res {
        Err(e) => json!({"tree": null, "error": [e.to_string(), e.span().start(), e.span().end()], "counters": cnt}),
        Ok((s, root)) => {
            let remaining = if s.is_valid() { let sp = ctx.span(s); json!([sp.start(), sp.end()]) } else { Value::Null };
            let end_tok = if s.is_valid() { starts.get(&ctx.span(s).start()).copied().unwrap_or(ntok) } else { ntok };
            let tree = match root {
                ParserMatch::Node(n) => {
                    let t = ctx.tree().finalize(n);
                    dump(t.root(), starts)
                }
                _ => Value::Null,
            };
            let dg = digest_of(&tree);
            json!({"tree": if want_tree { tree } else { Value::Null }, "tree_digest": dg, "remaining": remaining, "end": end_tok, "counters": cnt})
        }
    }
}

fn dump(n: oal_model::grammar::NodeRef<(), Gram>, starts: &HashMap<usize, usize>) -> Value {
    use oal_model::grammar::SyntaxTrunk;
    match n.syntax().trunk() {
        SyntaxTrunk::Leaf(_) => {
            let sp = n.token().span();
            json!({"t": starts.get(&sp.start()).copied().unwrap_or(usize::MAX)})
        }
        SyntaxTrunk::Tree(k) => {
            let cs: Vec<Value> = n.children().map(|c| dump(c, starts)).collect();
            let sp = n.span().map(|s| json!([s.start(), s.end()])).unwrap_or(Value::Null);
            json!({"k": format!("{:?}", k), "s": sp, "c": cs})
        }
        SyntaxTrunk::Error => json!({"k": "Error", "s": null, "c": []}),
    }
}

pub fn run() {
    crate::l_compile::install_panic_hook();
    let stdin = std::io::stdin();
    let stdout = std::io::stdout();
    let mut out = stdout.lock();
    let loc = Locator::try_from("file:///t.oal").unwrap();
    for line in stdin.lock().lines() {
        let line = line.unwrap();
        let req: Value = serde_json::from_str(&line).unwrap_or(Value::Null);
        let want_uncached = req["uncached"].as_bool().unwrap_or(false);
        let want_tree = req["tree"].as_bool().unwrap_or(true);
        let res = crate::l_compile::guarded(std::panic::AssertUnwindSafe(|| {
            let build = |req: &Value| -> (TokenList<Token>, Vec<Value>, Vec<Value>) {
                let mut toks = Vec::new();
                let mut lexerrs = Vec::new();
                if let Some(text) = req["text"].as_str() {
                    let (list, errs) = oal_syntax::lexer::tokenize(loc.clone(), text);
                    let list = list.unwrap();
                    let mut s = list.head();
                    while s.is_valid() {
                        let (t, sp) = list.token_span(s);
                        let val = match t.value() {
                            TokenValue::Symbol(_) => json!(oal_model::lexicon::Intern::as_str(t.value(), &list)),
                            TokenValue::Number(n) => json!(n),
                            TokenValue::HttpStatus(h) => json!(format!("{:?}", h)),
                            TokenValue::None => Value::Null,
                        };
                        toks.push(json!([format!("{:?}", t.kind()), sp.start(), sp.end(), val]));
                        s = list.advance(s);
                    }
                    for e in errs {
                        lexerrs.push(json!([e.span().start(), e.span().end()]));
                    }
                    (list, toks, lexerrs)
                } else {
                    let mut list = TokenList::new(loc.clone());
                    for (i, k) in req["kinds"].as_array().cloned().unwrap_or_default().iter().enumerate() {
                        let kind = kind_by_name(k.as_str().unwrap_or("")).unwrap_or(TokenKind::Space);
                        list.push(Token::new(kind, TokenValue::None), i..i + 1);
                        toks.push(json!([format!("{:?}", kind), i, i + 1, null]));
                    }
                    (list, toks, lexerrs)
                }
            };
            let (list, toks, lexerrs) = build(&req);
            let mut starts = HashMap::new();
            for (i, t) in toks.iter().enumerate() {
                starts.insert(t[1].as_u64().unwrap() as usize, i);
            }
            let ntok = toks.len();
            let cached = run_parser(list, true, &starts, ntok, want_tree);
            let ntokens = toks.len();
            let mut res = json!({"status": "ok", "tokens": if want_tree { json!(toks) } else { Value::Null }, "ntokens": ntokens, "lex_errors": lexerrs, "cached": cached});
            if let (Some(text), true) = (req["text"].as_str(), want_tree) {
                // the public entry point used by every front end
                let (tree, errs) = oal_syntax::parse::<_, ()>(loc.clone(), text);
                let errors: Vec<Value> = errs
                    .iter()
                    .map(|e| match e {
                        oal_syntax::errors::Error::Grammar(g) => json!(["grammar", g.span().start(), g.span().end()]),
                        oal_syntax::errors::Error::Lexicon(l) => json!(["lexicon", l.span().start(), l.span().end()]),
                        _ => json!(["other", 0, 0]),
                    })
                    .collect();
                res["api"] = json!({"tree": tree.as_ref().map(|t| dump(t.root(), &starts)), "errors": errors});
            }
            if want_uncached {
                let (list2, _, _) = build(&req);
                res["uncached"] = run_parser(list2, false, &starts, ntok, want_tree);
            }
            res
        }));
        writeln!(out, "{}", res).unwrap();
        out.flush().unwrap();
    }
}
