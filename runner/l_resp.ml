(* layer: responses of an operation.  Q <entry>* ; entry = <status|D> <media|-> <schema|-> <desc|-> <nh> <hname hval>*nh
   output: per response key (in insertion order): key{media:schema,..|hname:hval,..|desc} separated by spaces *)
open Conv
open Responses

let opt w = if w = "-" || w = "D" then None else Some (n_of_int (int_of_string w))
let show_opt = function None -> "-" | Some n -> string_of_int (int_of_n n)
let pairs l = String.concat "," (Stdlib.List.map (fun (a, b) -> Printf.sprintf "%d:%d" (int_of_n a) (int_of_n b)) l)

let run () =
  each_line (fun line ->
      match words line with
      | "Q" :: rest ->
          let rec go ws acc =
            match ws with
            | st :: md :: sc :: ds :: nh :: ws' ->
                let nh = int_of_string nh in
                let rec take k acc2 ws2 =
                  if k = 0 then (Stdlib.List.rev acc2, ws2)
                  else match ws2 with a :: b :: r -> take (k - 1) ((n_of_int (int_of_string a), n_of_int (int_of_string b)) :: acc2) r | _ -> failwith "hdr"
                in
                let hs, ws'' = take nh [] ws' in
                go ws'' (((opt st, opt md), { c_schema = opt sc; c_headers = hs; c_desc = opt ds }) :: acc)
            | _ -> Stdlib.List.rev acc
          in
          let rs = go rest [] in
          let out = xfer_responses rs in
          print_endline
            (String.concat " "
               (Stdlib.List.map
                  (fun (k, r) -> Printf.sprintf "%s{%s|%s|%s}" (match k with None -> "D" | Some n -> string_of_int (int_of_n n)) (pairs r.r_content) (pairs r.r_headers) (show_opt r.r_desc))
                  out))
      | _ -> print_endline "?")
