(** Property C01 — accepted programs never go wrong.

    Full statement (kept visible, not proved): [accepted ms -> exists n r, run n ms = Done r],
    for the whole evaluator. It is false on the pinned tree: K1, K2, K10, K11, K12, K16.

    Proved here (partial): the cast table. Every panic site of the evaluator is a cast of an
    evaluated value; for every cast site, every resolved tag that passes the site's guard and
    every value form (references nested to any depth) the tag admits, the cast accepts the
    form — except the known triples, keyed by (cast site, offending form), each refuted by a
    witness. The preservation half (an expression of tag T only evaluates to forms T admits)
    is carried by the correspondence: template programs for every (site, tag, form) triple and
    the three program streams of the check. *)
From Oal Require Import Tag Cast CastProofs.

Theorem C01_cast_table_exact_partial : forall s t k,
  resolved t = true -> check s t = true -> admits t k = true ->
  cast_ok s k = true \/ known s k = true.
Proof. exact cast_table_exact. Qed.
Print Assumptions C01_cast_table_exact_partial.

Theorem C01_cast_never_panics_partial : forall s t k,
  resolved t = true -> check s t = true -> admits t k = true -> known s k = false -> cast_ok s k = true.
Proof. exact cast_never_panics. Qed.
Print Assumptions C01_cast_never_panics_partial.

Theorem C01_K1_ranges_in_domain_refuted :
  check SDomain (TBase BContent) = true /\ admits (TBase BContent) FRanges = true /\ cast_ok SDomain FRanges = false.
Proof. exact K1_ranges_in_domain. Qed.
Print Assumptions C01_K1_ranges_in_domain_refuted.

Theorem C01_K11_operation_as_headers_refuted :
  check SHeaders (TBase BObject) = true /\ admits (TBase BObject) FOp = true /\ cast_ok SHeaders FOp = false.
Proof. exact K11_operation_as_headers. Qed.
Print Assumptions C01_K11_operation_as_headers_refuted.

Theorem C01_K10_recursion_as_headers_refuted :
  check SHeaders (TBase BObject) = true /\ admits (TBase BObject) FRecursion = true /\ cast_ok SHeaders FRecursion = false.
Proof. exact K10_recursion_as_headers. Qed.
Print Assumptions C01_K10_recursion_as_headers_refuted.

Theorem C01_K12_operation_as_uri_refuted :
  check SRelUri (TBase BUri) = true /\ admits (TBase BUri) FOp = true /\ cast_ok SRelUri FOp = false.
Proof. exact K12_operation_as_uri. Qed.
Print Assumptions C01_K12_operation_as_uri_refuted.

Theorem C01_K12_operation_as_resource_refuted :
  check SResource (TBase BRelation) = true /\ admits (TBase BRelation) FOp = true /\ cast_ok SResource FOp = false.
Proof. exact K12_operation_as_resource. Qed.
Print Assumptions C01_K12_operation_as_resource_refuted.

(** K16 was found by this proof: the case (res statement, recursion variable) did not close *)
Theorem C01_K16_recursion_as_resource_refuted :
  check SResource (TBase BRelation) = true /\ admits (TBase BRelation) (FRef FRecursion) = true
  /\ cast_ok SResource (FRef FRecursion) = false.
Proof. exact K16_recursion_as_resource. Qed.
Print Assumptions C01_K16_recursion_as_resource_refuted.

Theorem C01_K2_unresolved_passes_guards_refuted : forall v,
  check SBody (TVar v) = true /\ cast_ok SBody FContent = false.
Proof. exact K2_unresolved_passes_guards. Qed.
Print Assumptions C01_K2_unresolved_passes_guards_refuted.

(** non-vacuity: a nested reference to an object at a headers site *)
Example C01_hyps_inhabited :
  resolved (TBase BObject) = true /\ check SHeaders (TBase BObject) = true /\
  admits (TBase BObject) (FRef (FRef FObject)) = true /\ known SHeaders (FRef (FRef FObject)) = false.
Proof. repeat split. Qed.
