(** Property C18 — rename is meaning-preserving and never crashes the server.

    Proved here (partial): over the handlers model, the edits a rename produces for the uses
    of a declaration are the identifier spans of exactly the uses bound to it (C17) and are
    pairwise disjoint; a consistent injective renaming leaves the binding relation unchanged
    (C05), so the edited program binds every use as before. That the edited sources are
    accepted and compile to the same document, and that the server survives every offered
    rename (F4, fixed), is carried by monitor O18 on the real binary. *)
From Oal Require Import Handlers HandlersProofs Resolve RewriteProofs.

Theorem C18_rename_use_edits_disjoint : forall us d, ordered us ->
  forall u v, In u (references_of us d) -> In v (references_of us d) -> u <> v ->
  (u_iend u <= u_istart v \/ u_iend v <= u_istart u)%N.
Proof. exact rename_use_edits_disjoint. Qed.
Print Assumptions C18_rename_use_edits_disjoint.

Theorem C18_rename_edits_are_the_bound_uses : forall us d u,
  In u (references_of us d) <-> In u us /\ u_def u = Some d.
Proof. exact refs_exact. Qed.
Print Assumptions C18_rename_edits_are_the_bound_uses.

Theorem C18_renaming_keeps_binding_partial : forall f, (forall a b, f a = f b -> a = b) ->
  forall t en, lex (ren_env f en) (ren f t) = lex en t.
Proof. exact alpha_resolution. Qed.
Print Assumptions C18_renaming_keeps_binding_partial.
