(** Wire format of the evaluator tie: a program arrives as an s-expression written by the
    harness from the front end's resolved trees, a result leaves as an s-expression that the
    harness also prints for the real [Spec]. References are printed as their position in
    the final reference table (implicit names are hashes in the code, keys in the model). *)
From Oal Require Export Eval Typing Strat Builder.
Local Open Scope N_scope.

Inductive sx := A (z : Z) | L (l : list sx).

(** * decoding *)
Definition obind {X Y} (o : option X) (f : X -> option Y) : option Y := match o with Some x => f x | None => None end.
Notation "'let?' x := o 'in' k" := (obind o (fun x => k)) (at level 200, x pattern, o at level 100, k at level 200).

Definition dN (x : sx) : option N := match x with A z => if Z.leb 0 z then Some (Z.to_N z) else None | _ => None end.
Definition dZ (x : sx) : option Z := match x with A z => Some z | _ => None end.
Definition dbool (x : sx) : option bool := match x with A 0%Z => Some false | A 1%Z => Some true | _ => None end.

Section DList.
  Context {X : Type}.
  Variable f : sx -> option X.
  Fixpoint dmap (l : list sx) : option (list X) :=
    match l with
    | [] => Some []
    | x :: l' => let? a := f x in let? r := dmap l' in Some (a :: r)
    end.
  Definition dlist (x : sx) : option (list X) := match x with L l => dmap l | _ => None end.
  Definition dopt (x : sx) : option (option X) :=
    match x with L [] => Some None | L [y] => let? a := f y in Some (Some a) | _ => None end.
End DList.

Fixpoint dyaml (x : sx) : option yaml :=
  match x with
  | L [A 0%Z] => Some YNull
  | L [A 1%Z; b] => let? b := dbool b in Some (YBool b)
  | L [A 2%Z; A z] => Some (YInt z)
  | L [A 3%Z; L []; i] => let? i := dN i in Some (YFlt None i)
  | L [A 3%Z; L [A z]; i] => let? i := dN i in Some (YFlt (Some z) i)
  | L [A 4%Z; s] => let? s := dN s in Some (YStr s)
  | L [A 5%Z; L l] =>
      let? l := (fix go (l : list sx) : option (list yaml) :=
                   match l with
                   | [] => Some []
                   | y :: l' => let? a := dyaml y in let? r := go l' in Some (a :: r)
                   end) l in Some (YSeq l)
  | L [A 6%Z; L l] =>
      let? l := (fix go (l : list sx) : option (list (str * yaml)) :=
                   match l with
                   | [] => Some []
                   | L [k; v] :: l' => let? k := dN k in let? a := dyaml v in let? r := go l' in Some ((k, a) :: r)
                   | _ => None
                   end) l in Some (YMap l)
  | _ => None
  end.

Definition dymap (x : sx) : option ymap := match dyaml x with Some (YMap m) => Some m | _ => None end.
Definition danns (x : sx) : option (list (option ymap)) := dlist (dopt dymap) x.

Definition dstatus (x : sx) : option status :=
  match x with
  | L [A 0%Z; n] => let? n := dN n in Some (StCode n)
  | L [A 1%Z; c] => let? c := dN c in Some (StRange c)
  | _ => None
  end.

Definition doptbool (x : sx) : option (option bool) :=
  match x with A 0%Z => Some None | A 1%Z => Some (Some false) | A 2%Z => Some (Some true) | _ => None end.

Fixpoint dexpr (x : sx) : option expr :=
  let dexprs := fix go (l : list sx) : option (list expr) :=
                  match l with
                  | [] => Some []
                  | y :: l' => let? a := dexpr y in let? r := go l' in Some (a :: r)
                  end in
  let doexpr := fun (o : sx) =>
                  match o with
                  | L [] => Some None
                  | L [y] => let? a := dexpr y in Some (Some a)
                  | _ => None
                  end in
  match x with
  | L [A 0%Z; anns; e] => let? anns := danns anns in let? e := dexpr e in Some (ETerm anns e)
  | L [A 1%Z; e] => let? e := dexpr e in Some (ESub e)
  | L [A 2%Z; p] => let? p := dN p in Some (EPrim p)
  | L [A 3%Z; s] => let? s := dN s in Some (ELitStr s)
  | L [A 4%Z; n] => let? n := dN n in Some (ELitNum n)
  | L [A 5%Z; s] => let? s := dstatus s in Some (ELitStat s)
  | L [A 6%Z; m; i] => let? m := dN m in let? i := dN i in Some (EDecl m i)
  | L [A 7%Z] => Some EConcat
  | L [A 8%Z; b] => let? b := dN b in Some (EBind b)
  | L [A 9%Z; f; L args] => let? f := dexpr f in let? args := dexprs args in Some (EApp f args)
  | L [A 10%Z; m; i; b; e] =>
      let? m := dN m in let? i := dN i in let? b := dN b in let? e := dexpr e in Some (ERec m i b e)
  | L [A 11%Z; L ps] => let? ps := dexprs ps in Some (EObj ps)
  | L [A 12%Z; name; req; e] =>
      let? name := dN name in let? req := doptbool req in let? e := dexpr e in Some (EProp name req e)
  | L [A 13%Z; b; e] => let? b := dbool b in let? e := dexpr e in Some (EUnary b e)
  | L [A 14%Z; e] => let? e := dexpr e in Some (EArr e)
  | L [A 15%Z; op; L es] => let? op := dN op in let? es := dexprs es in Some (EOp op es)
  | L [A 16%Z; body; L metas] =>
      let? body := doexpr body in
      let? metas := (fix go (l : list sx) : option (list (N * expr)) :=
                       match l with
                       | [] => Some []
                       | L [k; e] :: l' => let? k := dN k in let? e := dexpr e in let? r := go l' in Some ((k, e) :: r)
                       | _ => None
                       end) metas in
      Some (ECont body metas)
  | L [A 17%Z; ms; dom; rg; prm] =>
      let? ms := dlist dN ms in let? dom := doexpr dom in let? rg := dexpr rg in let? prm := doexpr prm in
      Some (EXfer ms dom rg prm)
  | L [A 18%Z; L segs; prm] =>
      let? segs := (fix go (l : list sx) : option (list (str + expr)) :=
                      match l with
                      | [] => Some []
                      | L [A 0%Z; s] :: l' => let? s := dN s in let? r := go l' in Some (inl s :: r)
                      | L [A 1%Z; e] :: l' => let? e := dexpr e in let? r := go l' in Some (inr e :: r)
                      | _ => None
                      end) segs in
      let? prm := doexpr prm in
      Some (EUri segs prm)
  | L [A 19%Z; u; L xs] => let? u := dexpr u in let? xs := dexprs xs in Some (ERel u xs)
  | _ => None
  end.

Definition ddecl (x : sx) : option decl :=
  match x with
  | L [r; rc; anns; ps; rhs] =>
      let? r := dopt dN r in let? rc := dbool rc in let? anns := danns anns in
      let? ps := dlist dN ps in let? rhs := dexpr rhs in
      Some (mk_decl r rc anns ps rhs)
  | _ => None
  end.

Definition dprog (x : sx) : option (prog * list expr) :=
  match x with
  | L [ms; rs] =>
      let? ms := dlist (dlist ddecl) ms in let? rs := dlist dexpr rs in Some (ms, rs)
  | _ => None
  end.

(** * encoding of results *)
Definition eN (n : N) : sx := A (Z.of_N n).
Definition eopt {X} (f : X -> sx) (o : option X) : sx := match o with None => L [] | Some x => L [f x] end.
Definition ebool (b : bool) : sx := A (if b then 1 else 0)%Z.
Definition ostr := eopt eN.
Definition enum_ (n : num) : sx := match n with NumI z => L [A 0%Z; A z] | NumF i => L [A 1%Z; eN i] end.
Definition eexamples (e : examples) : sx :=
  eopt (fun l => L (map (fun kv : str * str => L [eN (fst kv); eN (snd kv)]) l)) e.
Definition estatus (s : status) : sx := match s with StCode n => L [A 0%Z; eN n] | StRange c => L [A 1%Z; eN c] end.

Section Enc.
  Variable keys : list rkey.        (* the keys of the final reference table, in order *)

  Fixpoint key_index (k : rkey) (l : list rkey) (i : Z) : Z :=
    match l with [] => (-1)%Z | k' :: l' => if rkey_eqb k k' then i else key_index k l' (i + 1)%Z end.
  Definition ekey (k : rkey) : sx := A (key_index k keys 0%Z).

  Fixpoint eschema (s : schema) : sx :=
    match s with
    | Schema e desc title req ex => L [esexpr e; ostr desc; ostr title; eopt ebool req; eexamples ex]
    end
  with esexpr (e : sexpr) : sx :=
    match e with
    | SNum a b c d => L [A 0%Z; eopt enum_ a; eopt enum_ b; eopt enum_ c; eopt enum_ d]
    | SStr p en f ex mn mx => L [A 1%Z; ostr p; L (map eN en); ostr f; ostr ex; eopt A mn; eopt A mx]
    | SBool => L [A 2%Z]
    | SInt a b c d => L [A 3%Z; eopt A a; eopt A b; eopt A c; eopt A d]
    | SRel r => L [A 4%Z; erelation r]
    | SUri u => L [A 5%Z; euri u]
    | SArr i => L [A 6%Z; eschema i]
    | SObj ps => L [A 7%Z; L (map eproperty ps)]
    | SOp op ss => L [A 8%Z; A (match op with OJoin => 0 | OAny => 1 | OSum => 2 end)%Z; L (map eschema ss)]
    | SRef k => L [A 9%Z; ekey k]
    end
  with eproperty (p : property) : sx :=
    match p with Prop_ name s desc req => L [eN name; eschema s; ostr desc; eopt ebool req] end
  with euri (u : uri) : sx :=
    match u with
    | Uri path prm ex =>
        L [L (map euseg path);
           match prm with None => L [] | Some ps => L [L (map eproperty ps)] end;
           ostr ex]
    end
  with euseg (u : useg) : sx :=
    match u with ULit s => L [A 0%Z; eN s] | UVar p => L [A 1%Z; eproperty p] end
  with erelation (r : relation) : sx :=
    match r with
    | Rel u xs => L [euri u; L (map (fun o => match o with None => L [] | Some t => L [etransfer t] end) xs)]
    end
  with etransfer (t : transfer) : sx :=
    match t with
    | Xfer ms dom rg prm desc summ tags id =>
        L [L (map ebool ms); econtent dom;
           L (map (fun kc => match kc with (k, c) => L [eopt estatus (fst k); ostr (snd k); econtent c] end) rg);
           match prm with None => L [] | Some ps => L [L (map eproperty ps)] end;
           ostr desc; ostr summ; L (map eN tags); ostr id]
    end
  with econtent (c : content) : sx :=
    match c with
    | Content s st media hd desc ex =>
        L [match s with None => L [] | Some s' => L [eschema s'] end;
           eopt estatus st; ostr media;
           match hd with None => L [] | Some ps => L [L (map eproperty ps)] end;
           ostr desc; eexamples ex]
    end.
End Enc.

Definition ekeyname (k : rkey) : sx := match k with KNamed s => eN s | _ => A (-1)%Z end.

Definition espec (r : list relation * list (rkey * schema)) : sx :=
  let keys := map fst (snd r) in
  L [L (map (erelation keys) (fst r));
     L (map (fun ks : rkey * schema => L [ekeyname (fst ks); eschema keys (snd ks)]) (snd r))].

Definition eresult (r : res (list relation * list (rkey * schema))) : sx :=
  match r with
  | Ok v => L [A 0%Z; espec v]
  | Err e => L [A 1%Z; eN e]
  | Panic p => L [A 2%Z; eN p]
  | Fuel => L [A 3%Z]
  end.

Definition FUEL : nat := N.to_nat 200000.

(** the whole tie function: decode, evaluate, encode *)
Definition run_eval (x : sx) : sx :=
  match dprog x with
  | None => L [A 4%Z]
  | Some (P, rs) => eresult (eval_program false P FUEL rs)
  end.

(** the same program under the lexical reference semantics, and whether it is lexically closed *)
Definition run_eval_lexical (x : sx) : sx :=
  match dprog x with
  | None => L [A 4%Z]
  | Some (P, rs) => L [ebool (closed_progb P && forallb (closed []) rs); eresult (eval_program true P FUEL rs)]
  end.

(** * the typing tie: the tags the real inference left on declarations and recursion nodes *)
Definition dbase (x : sx) : option base :=
  match x with
  | A 0%Z => Some BText | A 1%Z => Some BNumber | A 2%Z => Some BStatus | A 3%Z => Some BPrimitive
  | A 4%Z => Some BRelation | A 5%Z => Some BObject | A 6%Z => Some BContent | A 7%Z => Some BTransfer
  | A 8%Z => Some BArray | A 9%Z => Some BUri | A 10%Z => Some BAny | _ => None
  end.

Fixpoint dtag (x : sx) : option tag :=
  match x with
  | L [A 0%Z; b] => let? b := dbase b in Some (TBase b)
  | L [A 1%Z; t] => let? t := dtag t in Some (TProperty t)
  | L [A 2%Z; L bs; r] =>
      let? bs := (fix go (l : list sx) : option (list tag) :=
                    match l with
                    | [] => Some []
                    | y :: l' => let? a := dtag y in let? r := go l' in Some (a :: r)
                    end) bs in
      let? r := dtag r in Some (TFunc bs r)
  | L [A 3%Z; n] => let? n := dN n in Some (TVar n)
  | _ => None
  end.

Definition dtenv (x : sx) : option tenv :=
  match x with
  | L [sg; rt] =>
      let? sg := dlist (dlist dtag) sg in
      let? rt := dlist (fun y => match y with
                                 | L [m; i; t] => let? m := dN m in let? i := dN i in let? t := dtag t in Some ((m, i), t)
                                 | _ => None
                                 end) rt in
      Some (mk_tenv sg rt)
  | _ => None
  end.

Definition tenv_ground (E : tenv) : bool := forallb (forallb ground) (sig E).

(** input: (program tenv); output: (decoded? ground? well-typed? @names consistent?) *)
Definition run_typing (x : sx) : sx :=
  match x with
  | L [p; te] =>
      match dprog p, dtenv te with
      | Some (P, rs), Some E => L [A 1%Z; ebool (tenv_ground E); ebool (wt_progb E P rs); ebool (named_okb (named P E))]
      | _, _ => L [A 0%Z]
      end
  | _ => L [A 0%Z]
  end.

(** the stratification tie: does the recursion check's verdict give a rank? (first-order programs only) *)
Definition run_strat (x : sx) : sx :=
  match dprog x with
  | None => L [A 4%Z]
  | Some (P, rs) =>
      let rk := ranks P in
      L [ebool (stratified P rs);
         ebool (all_decls P (fun _ _ d => fo P (d_rhs d)) && forallb (fo P) rs);
         (* every declaration flagged by the recursion check is one the evaluator memoises (no parameters) *)
         ebool (all_decls P (fun _ _ d => negb (d_rec d) || match d_params d with [] => true | _ => false end))]
  end.

(** the uses among declarations: every pair (declaration, declaration mentioned in its right-hand side) *)
Fixpoint occs (e : expr) : list (N * N) :=
  match e with
  | ETerm _ e' | ESub e' | EProp _ _ e' | EUnary _ e' | EArr e' | ERec _ _ _ e' => occs e'
  | EDecl m i => [(m, i)]
  | EApp f args => occs f ++ flat_map occs args
  | EObj ps => flat_map occs ps
  | EOp _ es => flat_map occs es
  | ECont body metas => (match body with Some b => occs b | None => [] end) ++ flat_map (fun ke : N * expr => occs (snd ke)) metas
  | EXfer _ dom rg prm =>
      (match dom with Some b => occs b | None => [] end) ++ occs rg ++ (match prm with Some b => occs b | None => [] end)
  | EUri segs prm =>
      flat_map (fun sg : str + expr => match sg with inl _ => [] | inr e' => occs e' end) segs ++ (match prm with Some b => occs b | None => [] end)
  | ERel u xs => occs u ++ flat_map occs xs
  | _ => []
  end.
Definition use_edges (P : prog) : list ((N * N) * (N * N)) :=
  flat_map (fun mds : N * list decl =>
    flat_map (fun idd : N * decl => map (fun y => ((fst mds, fst idd), y)) (occs (d_rhs (snd idd)))) (enum (snd mds))) (enum P).
Definition run_edges (x : sx) : sx :=
  match dprog x with
  | None => L [A 4%Z]
  | Some (P, _) => L (map (fun xy : (N * N) * (N * N) => L [eN (fst (fst xy)); eN (snd (fst xy)); eN (fst (snd xy)); eN (snd (snd xy))]) (use_edges P))
  end.

(** * the document tie: evaluate, build the document (Model/Builder.v), print it as an s-expression *)
Fixpoint ejson (j : json) : sx :=
  match j with
  | JNull => L [A 0%Z]
  | JBool b => L [A 1%Z; ebool b]
  | JInt z => L [A 2%Z; A z]
  | JFlt i => L [A 3%Z; eN i]
  | JStr t => L (A 4%Z :: map eN t)
  | JArr l => L (A 5%Z :: map ejson l)
  | JObj m => L (A 6%Z :: map (fun kv => match kv with (k, v) => L [L (map eN k); ejson v] end) m)
  end.

Definition dtext (x : sx) : option (list N) := dlist dN x.

(** input: (program strings names); output: (0 json) | the evaluation's error / panic | (5) missing reference *)
Definition run_doc (x : sx) : sx :=
  match x with
  | L [p; ss; ns] =>
      match dprog p, dlist dtext ss, dlist dtext ns with
      | Some (P, rs), Some strs, Some names =>
          match eval_program false P FUEL rs with
          | Ok (rels, table) =>
              match document (fun i => nth (N.to_nat i) strs []) table names rels with
              | Some j => L [A 0%Z; ejson j]
              | None => L [A 5%Z]
              end
          | Err e => L [A 1%Z; eN e]
          | Panic q => L [A 2%Z; eN q]
          | Fuel => L [A 3%Z]
          end
      | _, _, _ => L [A 4%Z]
      end
  | _ => L [A 4%Z]
  end.

(** * the document tie with a base description (Model/BuilderBase.v) *)
From Oal Require Import BuilderBase.

Fixpoint djson (x : sx) : option json :=
  match x with
  | L [A 0%Z] => Some JNull
  | L [A 1%Z; b] => option_map JBool (dbool b)
  | L [A 2%Z; A z] => Some (JInt z)
  | L [A 3%Z; i] => option_map JFlt (dN i)
  | L (A 4%Z :: t) => option_map JStr (dlist dN (L t))
  | L (A 5%Z :: l) =>
      option_map JArr
        ((fix go (l : list sx) : option (list json) :=
            match l with
            | [] => Some []
            | y :: r => match djson y, go r with Some j, Some js => Some (j :: js) | _, _ => None end
            end) l)
  | L (A 6%Z :: m) =>
      option_map JObj
        ((fix go (m : list sx) : option (list (list N * json)) :=
            match m with
            | [] => Some []
            | L [L k; v] :: r =>
                match dlist dN (L k), djson v, go r with
                | Some k', Some j, Some js => Some ((k', j) :: js)
                | _, _, _ => None
                end
            | _ => None
            end) m)
  | _ => None
  end.

(** input: (program strings names base), base the member list of the normalised base document as
    a JSON object; output as [run_doc] *)
Definition run_doc_base (x : sx) : sx :=
  match x with
  | L [p; ss; ns; b] =>
      match dprog p, dlist dtext ss, dlist dtext ns, djson b with
      | Some (P, rs), Some strs, Some names, Some (JObj base) =>
          match eval_program false P FUEL rs with
          | Ok (rels, table) =>
              match document_with_base (fun i => nth (N.to_nat i) strs []) table names base rels with
              | Some j => L [A 0%Z; ejson j]
              | None => L [A 5%Z]
              end
          | Err e => L [A 1%Z; eN e]
          | Panic q => L [A 2%Z; eN q]
          | Fuel => L [A 3%Z]
          end
      | _, _, _, _ => L [A 4%Z]
      end
  | _ => L [A 4%Z]
  end.

Lemma djson_ejson_example :
  djson (ejson (JObj [([112], JArr [JInt 3; JStr [97]; JBool true; JNull]); ([36], JObj [])])) =
  Some (JObj [([112], JArr [JInt 3; JStr [97]; JBool true; JNull]); ([36], JObj [])]).
Proof. reflexivity. Qed.
