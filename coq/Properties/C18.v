(** Property C18 — rename is meaning-preserving and never crashes the server.

    Proved here (partial): over the handlers model, the edits a rename produces for the uses
    of a declaration are the identifier spans of exactly the uses bound to it (C17) and are
    pairwise disjoint; a consistent injective renaming leaves the binding relation unchanged
    (C05), so the edited program binds every use as before. On the evaluator model (tied to
    eval.rs on every run): renaming the bound identifiers of a whole program injectively
    leaves the evaluation unchanged ([C18_binder_rename_keeps_document], parameters and rec
    binders); renaming @references injectively gives the same result with the keys of the
    named components renamed and nothing else changed ([C18_reference_rename_keeps_document]:
    the same document with those components' names changed). Declarations are referred to by
    position in resolved trees, so renaming a declaration or an import qualifier does not
    change the tree the evaluator sees. That the edited sources are accepted by the front end,
    and that the server survives every offered rename (F4, fixed), is carried by monitor O18
    on the real binary. *)
From Oal Require Import Handlers HandlersProofs Resolve RewriteProofs Folder FolderProofs.
From Oal Require Eval EvalProofs KeyMap.

Theorem C18_rename_use_edits_disjoint : forall us d, ordered us ->
  forall u v, In u (references_of us d) -> In v (references_of us d) -> u <> v ->
  (u_iend u <= u_istart v \/ u_iend v <= u_istart u)%N.
Proof. exact rename_use_edits_disjoint. Qed.
Print Assumptions C18_rename_use_edits_disjoint.

Theorem C18_rename_edits_are_the_bound_uses : forall us d u,
  In u (references_of us d) <-> In u us /\ u_def u = Some d.
Proof. exact refs_exact. Qed.
Print Assumptions C18_rename_edits_are_the_bound_uses.

Theorem C18_renaming_keeps_binding_partial : forall f, (forall a b, f a = f b -> a = b) ->
  forall t en, lex (ren_env f en) (ren f t) = lex en t.
Proof. exact alpha_resolution. Qed.
Print Assumptions C18_renaming_keeps_binding_partial.

(** folder level (Model/Folder.v, run against the real server on every check): the edits of a
    rename are the identifier of the definition, in whichever module it lives, and exactly the
    references; the reference edits of a module never overlap; a built-in is never renamed;
    on the qualifier of an import the edits are that identifier and the first identifier of
    the variables of the module that carry it *)
Theorem C18_folder_rename_edits : forall f m idx d i n,
  f_find_definition f m idx = Some d -> internal f d = false -> locate f d = Some (i, n) ->
  f_rename f m idx = (i, n_istart n, n_iend n) :: f_refs f d.
Proof. exact f_rename_external. Qed.
Print Assumptions C18_folder_rename_edits.

Theorem C18_folder_reference_edits_exact : forall f d i s e,
  In (i, s, e) (f_refs f d) <->
  exists fm u, nth_error (f_mods f) i = Some fm /\ In u (uses_of fm) /\ u_def u = Some d /\ s = u_istart u /\ e = u_iend u.
Proof. exact f_refs_exact. Qed.
Print Assumptions C18_folder_reference_edits_exact.

Theorem C18_folder_reference_edits_disjoint : forall f d i s1 e1 s2 e2,
  folder_ok f -> In (i, s1, e1) (f_refs f d) -> In (i, s2, e2) (f_refs f d) -> (s1, e1) <> (s2, e2) ->
  (e1 <= s2 \/ e2 <= s1)%N.
Proof. exact f_refs_disjoint. Qed.
Print Assumptions C18_folder_reference_edits_disjoint.

Theorem C18_folder_builtin_not_renamed : forall f m idx d,
  f_find_definition f m idx = Some d -> internal f d = true -> f_rename f m idx = [].
Proof. exact f_rename_builtin. Qed.
Print Assumptions C18_folder_builtin_not_renamed.

Theorem C18_folder_rename_qualifier : forall f m idx q,
  f_find_definition f m idx = None -> qual_at (fm_quals (mod_at f m)) idx = Some q ->
  forall i s e, In (i, s, e) (f_rename f m idx) <->
    (i = m /\ s = q_start q /\ e = q_end q) \/
    (i = m /\ exists v x, In v (fm_uses (mod_at f m)) /\ v_q v = Some (s, e, x) /\ x = q_name q).
Proof. exact f_rename_qualifier. Qed.
Print Assumptions C18_folder_rename_qualifier.

(** prepareRename announces the identifier the rename then replaces: on a declaration, the first edit; on a
    variable (either of its identifiers), its last identifier, which is one of the reference edits *)
Theorem C18_folder_prepare_on_declaration : forall f m idx s e n,
  decl_ident_span_at (fm_nodes (mod_at f m)) idx = Some (s, e) ->
  f_find_definition f m idx = Some (n_id n) -> internal f (n_id n) = false ->
  locate f (n_id n) = Some (m, n) -> s = n_istart n -> e = n_iend n ->
  exists rest, f_rename f m idx = (m, s, e) :: rest.
Proof. exact f_prepare_rename_declaration. Qed.
Print Assumptions C18_folder_prepare_on_declaration.

Theorem C18_folder_prepare_on_variable : forall f m idx v d i n fm,
  folder_ok f -> nth_error (f_mods f) m = Some fm ->
  decl_ident_span_at (fm_nodes fm) idx = None -> qual_at (fm_quals fm) idx = None ->
  In v (fm_uses fm) -> on_ident v idx = true ->
  (forall x, In x (fm_nodes fm) -> n_decl x = true -> ~ (n_istart x <= idx < n_iend x)%N) ->
  u_def (v_use v) = Some d -> internal f d = false -> locate f d = Some (i, n) ->
  f_prepare f m idx = Some (u_istart (v_use v), u_iend (v_use v)) /\
  In (m, u_istart (v_use v), u_iend (v_use v)) (f_rename f m idx).
Proof. exact f_prepare_rename_variable. Qed.
Print Assumptions C18_folder_prepare_on_variable.

(** evaluation: renaming binders, renaming @references *)
Theorem C18_binder_rename_keeps_document : forall rho : N -> N, (forall x y, rho x = rho y -> x = y) ->
  forall P n rs,
  Eval.eval_program false (EvalProofs.ren_prog rho P) n (map (EvalProofs.ren rho) rs) = Eval.eval_program false P n rs.
Proof. exact EvalProofs.eval_program_rename. Qed.
Print Assumptions C18_binder_rename_keeps_document.

Theorem C18_reference_rename_keeps_document : forall g : Eval.str -> Eval.str, (forall x y, g x = g y -> x = y) ->
  forall lx P n rs,
  Eval.eval_program lx (KeyMap.rename_refs g P) n rs = KeyMap.rmap (KeyMap.km_result g KeyMap.idp KeyMap.idp) (Eval.eval_program lx P n rs).
Proof. exact KeyMap.rename_reference_keeps_document. Qed.
Print Assumptions C18_reference_rename_keeps_document.

Example C18_reference_rename_nonvacuous :
  KeyMap.rename_refs KeyMap.swap56 KeyMap.ex_ref_P <> KeyMap.ex_ref_P /\
  exists rels sc sc',
    Eval.eval_program false KeyMap.ex_ref_P 50 KeyMap.ex_ref_rs = Eval.Ok (rels, [(Eval.KNamed 5%N, sc)]) /\
    Eval.eval_program false (KeyMap.rename_refs KeyMap.swap56 KeyMap.ex_ref_P) 50 KeyMap.ex_ref_rs =
    Eval.Ok (map (KeyMap.km_relation KeyMap.swap56 KeyMap.idp KeyMap.idp) rels, [(Eval.KNamed 6%N, sc')]).
Proof. exact KeyMap.ex_rename_reference. Qed.
