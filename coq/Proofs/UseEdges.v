(** The uses among declarations as a list (what the definition graph of the recursion check
    must contain: RecursionLink.H_edges), and its agreement with the occurrence predicate. *)
From Oal Require Import Eval Strat EvalIO InlineProofs RankProofs.
From Coq Require Import Lia.
Local Open Scope N_scope.

Lemma or_iff_compat (A B C D : Prop) : (A <-> C) -> (B <-> D) -> (A \/ B <-> C \/ D).
Proof. tauto. Qed.

Lemma existsb_flat {X} (f : X -> bool) (F : X -> list (N * N)) (p : N * N) l :
  (forall x, In x l -> (f x = true <-> In p (F x))) -> (existsb f l = true <-> In p (flat_map F l)).
Proof.
  intros H. rewrite existsb_exists, in_flat_map. split; intros (x & Hx & Hf); exists x; (split; [exact Hx|]); apply (H x Hx); exact Hf.
Qed.

Lemma occs_occ m i : forall n e, (size e <= n)%nat -> (occ m i e = true <-> In (m, i) (occs e)).
Proof.
  induction n as [|n IH]; intros e Hs; [destruct e; cbn [size] in Hs; lia|].
  destruct e; cbn [size] in Hs; cbn [occ occs]; try (apply IH; lia); try (split; [discriminate|intros []]).
  - (* EDecl *) split.
    + intros H. apply andb_prop in H as [H1 H2]. apply N.eqb_eq in H1, H2. subst. left. reflexivity.
    + intros [[= -> ->]|[]]. rewrite !N.eqb_refl. reflexivity.
  - rewrite orb_true_iff, in_app_iff, (IH e ltac:(lia)). apply or_iff_compat_l. apply existsb_flat.
    intros x Hx. apply IH. pose proof (fold_sum_upper size args x Hx). lia.
  - apply existsb_flat. intros x Hx. apply IH. pose proof (fold_sum_upper size ps x Hx). lia.
  - apply existsb_flat. intros x Hx. apply IH. pose proof (fold_sum_upper size es x Hx). lia.
  - rewrite orb_true_iff, in_app_iff. apply or_iff_compat; [destruct body as [b|]; [apply IH; lia|split; [discriminate|intros []]]|].
    apply existsb_flat. intros [k x] Hx. cbn [snd]. apply IH.
    pose proof (fold_sum_upper (fun ke : N * expr => match ke with (_, e') => size e' end) metas (k, x) Hx) as H1. cbn beta iota in H1. lia.
  - rewrite !orb_true_iff, !in_app_iff. rewrite or_assoc. apply or_iff_compat; [destruct domain as [b|]; [apply IH; lia|split; [discriminate|intros []]]|].
    apply or_iff_compat; [apply IH; lia|destruct params as [b|]; [apply IH; lia|split; [discriminate|intros []]]].
  - rewrite orb_true_iff, in_app_iff. apply or_iff_compat; [|destruct params as [b|]; [apply IH; lia|split; [discriminate|intros []]]].
    apply existsb_flat. intros [x|x] Hx; [split; [discriminate|intros []]|]. apply IH.
    pose proof (fold_sum_upper (fun sg : str + expr => match sg with inl _ => 0%nat | inr e' => size e' end) segs (inr x) Hx) as H1. cbn beta iota in H1. lia.
  - rewrite orb_true_iff, in_app_iff, (IH e ltac:(lia)). apply or_iff_compat_l. apply existsb_flat.
    intros x Hx. apply IH. pose proof (fold_sum_upper size xfers x Hx). lia.
Qed.

Lemma edge_in_use_edges P x y : edge P x y -> In (x, y) (use_edges P).
Proof.
  unfold edge. destruct x as [m i], y as [m' i']. cbn [fst snd]. destruct (get_decl P m i) as [d|] eqn:Ed; [|intros []].
  intros (_ & Ho & _). unfold occP in Ho. apply (occs_occ m' i' (size (d_rhs d)) (d_rhs d) (le_n _)) in Ho.
  unfold get_decl in Ed. destruct (nth_error P (N.to_nat m)) as [ds|] eqn:Em; [|discriminate].
  unfold use_edges. apply in_flat_map. exists (m, ds). split; [rewrite <- (N2Nat.id m); apply enum_in', Em|].
  cbn [fst snd]. apply in_flat_map. exists (i, d). split; [rewrite <- (N2Nat.id i); apply enum_in', Ed|].
  cbn [fst snd]. apply in_map_iff. exists (m', i'). split; [reflexivity|exact Ho].
Qed.
