//! Layer L0: positions (same protocol as runner/l_pos.ml).
use oal_client::lsp::verif::{position_to_utf8, utf8_range_to_position, utf8_to_position};
use oal_model::locator::Locator;
use oal_model::span::{CharSpan, Span};
use std::io::{BufRead, Write};

pub fn run() {
    let stdin = std::io::stdin();
    let stdout = std::io::stdout();
    let mut out = std::io::BufWriter::new(stdout.lock());
    let mut text = String::new();
    let loc = Locator::try_from("file:///t.oal").unwrap();
    for line in stdin.lock().lines() {
        let line = line.unwrap();
        let ws: Vec<&str> = line.split_whitespace().collect();
        match ws.as_slice() {
            ["T", _, cps @ ..] => {
                text = crate::text_of(cps);
                writeln!(out, "T").unwrap();
            }
            ["P", l, c] | ["S", l, c] => {
                let p = lsp_types::Position::new(l.parse().unwrap(), c.parse().unwrap());
                writeln!(out, "{}", position_to_utf8(&text, p)).unwrap();
            }
            ["U", i] => {
                let p = utf8_to_position(&text, i.parse().unwrap());
                writeln!(out, "{} {}", p.line, p.character).unwrap();
            }
            ["C", i] => {
                let i: usize = i.parse().unwrap();
                let cs = CharSpan::from(&text, Span::new(loc.clone(), i..i));
                writeln!(out, "{}", cs.start).unwrap();
            }
            ["K", s, e] => {
                // the character span the CLI and the playground attach to a diagnostic
                let cs = CharSpan::from(&text, Span::new(loc.clone(), s.parse().unwrap()..e.parse().unwrap()));
                writeln!(out, "{} {}", cs.start, cs.end).unwrap();
            }
            ["R", s, e] => {
                let r = utf8_range_to_position(&text, s.parse().unwrap()..e.parse().unwrap());
                writeln!(
                    out,
                    "{} {} {} {}",
                    r.start.line, r.start.character, r.end.line, r.end.character
                )
                .unwrap();
            }
            _ => writeln!(out, "?").unwrap(),
        }
    }
}
