//! Layer L5/L6 (and the glue of L8): compile module sets from memory with the real crates.
//! One JSON object per input line, one JSON object per output line.
//!   {"mods": {"file:///main.oal": "...", ...}, "main": "file:///main.oal",
//!    "base": "<yaml or json text>" | null, "repeat": n, "wasm": bool}
use oal_compiler::module::{Loader, ModuleSet};
use oal_compiler::tree::Tree;
use oal_model::locator::Locator;
use serde_json::{json, Value};
use std::collections::HashMap;
use std::io::{BufRead, Write};

#[derive(Debug)]
pub enum Fail {
    Syntax(String, Option<(String, usize, usize)>),
    Compiler(String, String, Option<(String, usize, usize)>),
    Other(String),
}

impl From<oal_compiler::errors::Error> for Fail {
    fn from(e: oal_compiler::errors::Error) -> Self {
        let span = e.span().map(|s| (s.locator().to_string(), s.start(), s.end()));
        Fail::Compiler(kind_name(&e.kind), e.to_string(), span)
    }
}

pub fn kind_name(k: &oal_compiler::errors::Kind) -> String {
    use oal_compiler::errors::Kind::*;
    match k {
        Locator(_) => "Locator",
        Yaml(_) => "Yaml",
        Syntax(_) => "Syntax",
        NotInScope => "NotInScope",
        InvalidType => "InvalidType",
        CycleDetected => "CycleDetected",
        InvalidLiteral => "InvalidLiteral",
        InvalidIdentifier => "InvalidIdentifier",
        InvalidModule(_) => "InvalidModule",
    }
    .to_owned()
}

pub struct MemLoader<'a> {
    pub files: &'a HashMap<String, String>,
    pub syntax_errors: Vec<(String, Option<(String, usize, usize)>)>,
    /// like the LSP loader: keep the partial tree when there are syntax errors
    pub lenient: bool,
}

impl Loader<Fail> for MemLoader<'_> {
    fn is_valid(&mut self, loc: &Locator) -> bool {
        self.files.contains_key(loc.url().as_str())
    }
    fn load(&mut self, loc: &Locator) -> Result<String, Fail> {
        self.files
            .get(loc.url().as_str())
            .cloned()
            .ok_or_else(|| Fail::Other(format!("cannot read {}", loc)))
    }
    fn parse(&mut self, loc: Locator, input: String) -> Result<Tree, Fail> {
        let (tree, errs) = oal_syntax::parse(loc.clone(), input);
        for err in errs.iter() {
            let span = match err {
                oal_syntax::errors::Error::Grammar(ref e) => Some(e.span()),
                oal_syntax::errors::Error::Lexicon(ref e) => Some(e.span()),
                _ => None,
            }
            .map(|s| (s.locator().to_string(), s.start(), s.end()));
            self.syntax_errors.push((err.to_string(), span));
        }
        if !errs.is_empty() && !self.lenient {
            let (m, s) = self.syntax_errors.last().cloned().unwrap();
            return Err(Fail::Syntax(m, s));
        }
        tree.ok_or_else(|| Fail::Syntax("parsing failed".to_owned(), None))
    }
    fn compile(&mut self, mods: &ModuleSet, loc: &Locator) -> Result<(), Fail> {
        oal_compiler::compile::compile(mods, loc).map_err(Fail::from)
    }
}

fn span_json(s: &Option<(String, usize, usize)>) -> Value {
    match s {
        Some((l, a, b)) => json!([l, a, b]),
        None => Value::Null,
    }
}

pub fn compile_once(files: &HashMap<String, String>, main: &str, base: Option<&str>) -> Value {
    let main_loc = match Locator::try_from(main) {
        Ok(l) => l,
        Err(e) => return json!({"status": "error", "phase": "load", "kind": "Locator", "msg": e.to_string()}),
    };
    let mut loader = MemLoader { files, syntax_errors: Vec::new(), lenient: false };
    let mods = match oal_compiler::module::load(&mut loader, &main_loc) {
        Ok(m) => m,
        Err(Fail::Syntax(m, s)) => {
            return json!({"status": "error", "phase": "parse", "kind": "Syntax", "msg": m, "span": span_json(&s)})
        }
        Err(Fail::Compiler(k, m, s)) => {
            return json!({"status": "error", "phase": "compile", "kind": k, "msg": m, "span": span_json(&s)})
        }
        Err(Fail::Other(m)) => return json!({"status": "error", "phase": "load", "kind": "IO", "msg": m}),
    };
    let spec = match oal_compiler::eval::eval(&mods) {
        Ok(s) => s,
        Err(e) => {
            let span = e.span().map(|s| (s.locator().to_string(), s.start(), s.end()));
            return json!({"status": "error", "phase": "eval", "kind": kind_name(&e.kind), "msg": e.to_string(), "span": span_json(&span)});
        }
    };
    let mut builder = oal_openapi::Builder::new(spec);
    let mut base_norm = Value::Null;
    if let Some(b) = base {
        match serde_yaml::from_str::<openapiv3::OpenAPI>(b) {
            Ok(doc) => {
                base_norm = serde_json::to_value(&doc).unwrap_or(Value::Null);
                builder = builder.with_base(doc);
            }
            Err(e) => return json!({"status": "error", "phase": "base", "kind": "Yaml", "msg": e.to_string()}),
        }
    }
    let api = builder.into_openapi();
    let yaml = match serde_yaml::to_string(&api) {
        Ok(y) => y,
        Err(e) => return json!({"status": "error", "phase": "emit", "kind": "Yaml", "msg": e.to_string()}),
    };
    let doc = serde_json::to_value(&api).unwrap_or(Value::Null);
    let reparsed = serde_yaml::from_str::<openapiv3::OpenAPI>(&yaml)
        .ok()
        .and_then(|d| serde_json::to_value(&d).ok())
        .unwrap_or(Value::Null);
    json!({"status": "ok", "doc": doc, "yaml": yaml, "base_norm": base_norm, "reparsed_equal": reparsed == doc})
}

thread_local! {
    static LAST_PANIC: std::cell::RefCell<String> = std::cell::RefCell::new(String::new());
}

pub fn install_panic_hook() {
    std::panic::set_hook(Box::new(|info| {
        let msg = info.to_string();
        LAST_PANIC.with(|p| *p.borrow_mut() = msg);
    }));
}

pub fn last_panic() -> String {
    LAST_PANIC.with(|p| p.borrow().clone())
}

pub fn guarded<F: FnOnce() -> Value + std::panic::UnwindSafe>(f: F) -> Value {
    match std::panic::catch_unwind(f) {
        Ok(v) => v,
        Err(_) => {
            let msg = LAST_PANIC.with(|p| p.borrow().clone());
            json!({"status": "panic", "msg": msg})
        }
    }
}

pub fn run() {
    install_panic_hook();
    let stdin = std::io::stdin();
    let stdout = std::io::stdout();
    let mut out = stdout.lock();
    for line in stdin.lock().lines() {
        let line = line.unwrap();
        let req: Value = match serde_json::from_str(&line) {
            Ok(v) => v,
            Err(e) => {
                writeln!(out, "{}", json!({"status": "bad-request", "msg": e.to_string()})).unwrap();
                continue;
            }
        };
        let mut files = HashMap::new();
        if let Some(m) = req["mods"].as_object() {
            for (k, v) in m.iter() {
                files.insert(k.clone(), v.as_str().unwrap_or("").to_owned());
            }
        }
        let main = req["main"].as_str().unwrap_or("file:///main.oal").to_owned();
        let base = req["base"].as_str().map(|s| s.to_owned());
        let repeat = req["repeat"].as_u64().unwrap_or(1);
        let mut res = guarded(std::panic::AssertUnwindSafe(|| compile_once(&files, &main, base.as_deref())));
        // in-process repetitions: byte-identical YAML expected (C06)
        let mut same = true;
        for _ in 1..repeat {
            let again = guarded(std::panic::AssertUnwindSafe(|| compile_once(&files, &main, base.as_deref())));
            if again["yaml"] != res["yaml"] || again["status"] != res["status"] {
                same = false;
                res["yaml_other"] = again["yaml"].clone();
            }
        }
        if repeat > 1 {
            res["repeat_same"] = json!(same);
        }
        writeln!(out, "{}", res).unwrap();
        out.flush().unwrap();
    }
}
