(** Type tags of oal-compiler/src/inference/tag.rs. The eleven constant tags are
    grouped under [TBase]; tag variables are numbered by [N]. *)
From Coq Require Export List NArith Bool.
Export ListNotations.

Inductive base :=
  BText | BNumber | BStatus | BPrimitive | BRelation | BObject | BContent
| BTransfer | BArray | BUri | BAny.

Inductive tag :=
| TBase (b : base)
| TProperty (t : tag)
| TFunc (bs : list tag) (r : tag)
| TVar (v : N).

Definition base_eqb (a b : base) : bool :=
  match a, b with
  | BText, BText | BNumber, BNumber | BStatus, BStatus | BPrimitive, BPrimitive
  | BRelation, BRelation | BObject, BObject | BContent, BContent
  | BTransfer, BTransfer | BArray, BArray | BUri, BUri | BAny, BAny => true
  | _, _ => false
  end.

(** derived [PartialEq] *)
Fixpoint tag_eqb (a b : tag) : bool :=
  match a, b with
  | TBase x, TBase y => base_eqb x y
  | TProperty x, TProperty y => tag_eqb x y
  | TFunc xs x, TFunc ys y =>
      (fix go (xs ys : list tag) : bool :=
         match xs, ys with
         | [], [] => true
         | p :: xs', q :: ys' => tag_eqb p q && go xs' ys'
         | _, _ => false
         end) xs ys && tag_eqb x y
  | TVar v, TVar w => N.eqb v w
  | _, _ => false
  end.
