(** Model of oal-client/src/lsp/unicode.rs and of utf8_to_char_index in
    oal-model/src/span.rs: the same single forward scans with the same
    accumulators and the same break conditions. Integers are unbounded:
    the u32 line / character counters of the code cannot wrap for texts
    below 4 GiB (trusted base, DESIGN 10). *)
From Oal Require Export Text.

(** position_to_utf8(text, Position{line=pl, character=pc}), loop state
    (line, character, utf8_index). *)
Fixpoint p2u_go (t : text) (pl pc : N) (line ch idx : N) : N :=
  match t with
  | [] => idx
  | c :: t' =>
      if N.eqb line pl then
        if N.leb pc ch || is_lf c || is_cr c then idx
        else p2u_go t' pl pc line (ch + len16 c) (idx + len8 c)
      else if is_lf c then p2u_go t' pl pc (line + 1) ch (idx + len8 c)
      else p2u_go t' pl pc line ch (idx + len8 c)
  end.

Definition position_to_utf8 (t : text) (pl pc : N) : N := p2u_go t pl pc 0 0 0.

(** utf8_to_position(text, index) *)
Fixpoint u2p_go (t : text) (index : N) (line ch idx : N) : N * N :=
  match t with
  | [] => (line, ch)
  | c :: t' =>
      if N.leb index idx then (line, ch)
      else if is_lf c then u2p_go t' index (line + 1) 0 (idx + len8 c)
      else u2p_go t' index line (ch + len16 c) (idx + len8 c)
  end.

Definition utf8_to_position (t : text) (index : N) : N * N := u2p_go t index 0 0 0.

Definition utf8_range_to_position (t : text) (s e : N) : (N * N) * (N * N) :=
  (utf8_to_position t s, utf8_to_position t e).

(** utf8_to_char_index(input, index) *)
Fixpoint u2c_go (t : text) (index : N) (idx ci : N) : N :=
  match t with
  | [] => ci
  | c :: t' => if N.leb index idx then ci else u2c_go t' index (idx + len8 c) (ci + 1)
  end.

Definition utf8_to_char_index (t : text) (index : N) : N := u2c_go t index 0 0.

(** CharSpan::from (oal-model/src/span.rs): the character span the CLI and the playground show for a byte span *)
Definition char_span (t : text) (s e : N) : N * N := (utf8_to_char_index t s, utf8_to_char_index t e).

(** ------------------------------------------------------------------ *)
(** Independent reference: what the LSP specification says a position
    means. Lines are separated by LF; a CR directly before the separator
    (or anywhere: the scan stops at the first CR) is not part of the line
    content; [character] counts UTF-16 code units and is clamped to the
    line content. *)

Fixpoint split_lines (t : text) : list text :=
  match t with
  | [] => [[]]
  | c :: t' =>
      match split_lines t' with
      | l :: ls => if is_lf c then [] :: l :: ls else (c :: l) :: ls
      | [] => [[]] (* unreachable: split_lines never returns [] *)
      end
  end.

(** content of a line: up to the first CR *)
Fixpoint content (l : text) : text :=
  match l with [] => [] | c :: l' => if is_cr c then [] else c :: content l' end.

(** byte length of the shortest prefix of [l] that covers [k] UTF-16 units: a column that
    falls strictly inside a surrogate pair is rounded up to the end of that character, a
    column beyond the line takes the whole line. ([k - len16 c] is truncated subtraction.) *)
Fixpoint col8 (l : text) (k : N) : N :=
  match l with
  | [] => 0
  | c :: l' => if N.eqb k 0 then 0 else len8 c + col8 l' (k - len16 c)
  end.

Fixpoint spec_go (ls : list text) (pl pc : N) : N :=
  match ls with
  | [] => 0
  | l :: ls' =>
      if N.eqb pl 0 then col8 (content l) pc
      else match ls' with
           | [] => len8s l       (* line beyond the last: end of text *)
           | _ => len8s l + 1 + spec_go ls' (pl - 1) pc
           end
  end.

Definition pos_spec (t : text) (pl pc : N) : N := spec_go (split_lines t) pl pc.

(** client side of a range: offset, in UTF-16 units, of position (l, c) in the
    unit sequence [u] of the client's document (no clamping: used for positions
    the server produced, which are shown to lie inside their line). *)
Fixpoint client_off16 (u : list N) (l c : N) (off : N) : N :=
  if N.eqb l 0 then off + c else
  match u with
  | [] => off
  | x :: u' => client_off16 u' (if N.eqb x LF then l - 1 else l) c (off + 1)
  end.

Definition select16 (u : list N) (p q : N * N) : list N :=
  let a := client_off16 u (fst p) (snd p) 0 in
  let b := client_off16 u (fst q) (snd q) 0 in
  firstn (N.to_nat (b - a)) (skipn (N.to_nat a) u).
