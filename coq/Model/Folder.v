(** Folder-level model of oal-client/src/lsp/handlers.rs: [go_to_definition], [references] and
    [rename] over the modules of a resolved folder, with what the flat model of Handlers.v
    leaves out: the module a use or a definition lives in, the node a definition points to (a
    declaration or a binding: node span and identifier span), built-in definitions (never a
    location, never renamed, but equal to each other), the two identifiers of a qualified
    variable, and the qualifiers of imports.
    Definition identifiers are numbers that are unique in the folder ([External] = locator
    and node index; [Internal] = the [id()] of the built-in). Offsets are UTF-8 indices. *)
From Oal Require Export Handlers.
Open Scope N_scope.

(** a Variable node: the use of Handlers.v (node span, span of the last identifier,
    definition) and, when qualified, the span and the name of the first identifier *)
Record vuse := mk_vuse { v_use : use; v_q : option (N * N * N) }.
(** a node a definition can point to *)
Record dnode := mk_dnode { n_id : N; n_start : N; n_end : N; n_istart : N; n_iend : N; n_decl : bool (* Declaration, else Binding *) }.
(** the qualifier of an import: identifier span, name *)
Record qdef := mk_qdef { q_start : N; q_end : N; q_name : N }.
Record fmod := mk_fmod { fm_uses : list vuse; fm_nodes : list dnode; fm_quals : list qdef }.
Record folder := mk_folder { f_mods : list fmod; f_internal : list N }.

Definition no_mod : fmod := mk_fmod [] [] [].
Definition mod_at (f : folder) (m : nat) : fmod := nth m (f_mods f) no_mod.
Definition uses_of (fm : fmod) : list use := map v_use (fm_uses fm).
Definition internal (f : folder) (d : N) : bool := existsb (N.eqb d) (f_internal f).

(** External::node: the module and the node of a definition *)
Fixpoint node_in (ns : list dnode) (d : N) : option dnode :=
  match ns with
  | [] => None
  | n :: ns' => if N.eqb (n_id n) d then Some n else node_in ns' d
  end.
Fixpoint locate_from (ms : list fmod) (i : nat) (d : N) : option (nat * dnode) :=
  match ms with
  | [] => None
  | fm :: ms' => match node_in (fm_nodes fm) d with Some n => Some (i, n) | None => locate_from ms' (S i) d end
  end.
Definition locate (f : folder) (d : N) : option (nat * dnode) := locate_from (f_mods f) 0 d.

(** go_to_definition: the node of the external definition of the Variable under the cursor *)
Definition f_goto (f : folder) (m : nat) (idx : N) : option (nat * N * N) :=
  match definition_at (uses_of (mod_at f m)) idx with
  | Some d => if internal f d then None
              else match locate f d with Some (i, n) => Some (i, n_start n, n_end n) | None => None end
  | None => None
  end.

(** find_definition: the identifier under the cursor belongs to a Declaration (its own
    definition) or to a Variable (the definition attached to it, built-in or not) *)
Fixpoint decl_ident_at (ns : list dnode) (idx : N) : option N :=
  match ns with
  | [] => None
  | n :: ns' => if n_decl n && contains (n_istart n) (n_iend n) idx then Some (n_id n) else decl_ident_at ns' idx
  end.
Definition on_ident (v : vuse) (idx : N) : bool :=
  contains (u_istart (v_use v)) (u_iend (v_use v)) idx ||
  match v_q v with Some (s, e, _) => contains s e idx | None => false end.
Fixpoint var_ident_at (vs : list vuse) (idx : N) : option vuse :=
  match vs with
  | [] => None
  | v :: vs' => if on_ident v idx then Some v else var_ident_at vs' idx
  end.
Definition f_find_definition (f : folder) (m : nat) (idx : N) : option N :=
  match decl_ident_at (fm_nodes (mod_at f m)) idx with
  | Some d => Some d
  | None => match var_ident_at (fm_uses (mod_at f m)) idx with Some v => u_def (v_use v) | None => None end
  end.

(** find_references: the last identifier of every Variable of every module with that definition *)
Fixpoint refs_from (ms : list fmod) (i : nat) (d : N) : list (nat * N * N) :=
  match ms with
  | [] => []
  | fm :: ms' => map (fun u => (i, u_istart u, u_iend u)) (references_of (uses_of fm) d) ++ refs_from ms' (S i) d
  end.
Definition f_refs (f : folder) (d : N) : list (nat * N * N) := refs_from (f_mods f) 0 d.
Definition f_references (f : folder) (m : nat) (idx : N) : list (nat * N * N) :=
  match f_find_definition f m idx with Some d => f_refs f d | None => [] end.

(** rename: the identifier of the definition and every reference; on the qualifier of an
    import, that identifier and the first identifier of the variables of the module it
    qualifies; nothing otherwise *)
Fixpoint qual_at (qs : list qdef) (idx : N) : option qdef :=
  match qs with
  | [] => None
  | q :: qs' => if contains (q_start q) (q_end q) idx then Some q else qual_at qs' idx
  end.
Definition qual_uses (vs : list vuse) (name : N) : list (N * N) :=
  flat_map (fun v => match v_q v with Some (s, e, x) => if N.eqb x name then [(s, e)] else [] | None => [] end) vs.
Definition f_rename (f : folder) (m : nat) (idx : N) : list (nat * N * N) :=
  match f_find_definition f m idx with
  | Some d => if internal f d then []
              else match locate f d with
                   | Some (i, n) => (i, n_istart n, n_iend n) :: f_refs f d
                   | None => []
                   end
  | None => match qual_at (fm_quals (mod_at f m)) idx with
            | Some q => (m, q_start q, q_end q) :: map (fun se => (m, fst se, snd se)) (qual_uses (fm_uses (mod_at f m)) (q_name q))
            | None => []
            end
  end.

(** prepare_rename: the identifier the rename would replace at the cursor: the identifier of a
    declaration, the identifier of an import qualifier, or the last identifier of a variable
    (also when the cursor is on its qualifier) *)
Fixpoint decl_ident_span_at (ns : list dnode) (idx : N) : option (N * N) :=
  match ns with
  | [] => None
  | n :: ns' => if n_decl n && contains (n_istart n) (n_iend n) idx then Some (n_istart n, n_iend n) else decl_ident_span_at ns' idx
  end.
Definition f_prepare (f : folder) (m : nat) (idx : N) : option (N * N) :=
  match decl_ident_span_at (fm_nodes (mod_at f m)) idx with
  | Some se => Some se
  | None =>
      match qual_at (fm_quals (mod_at f m)) idx with
      | Some q => Some (q_start q, q_end q)
      | None => match var_ident_at (fm_uses (mod_at f m)) idx with
                | Some v => Some (u_istart (v_use v), u_iend (v_use v))
                | None => None
                end
      end
  end.

(** span discipline of one module (C11: the leaves tile the text): variables are disjoint and
    in document order; the identifiers of a variable lie inside it, the qualifier before the
    last identifier *)
Definition vuse_ok (v : vuse) : Prop :=
  match v_q v with
  | Some (s, e, _) => u_start (v_use v) <= s /\ s < e /\ e <= u_istart (v_use v)
  | None => True
  end.
Definition mod_ok (fm : fmod) : Prop := ordered (uses_of fm) /\ Forall vuse_ok (fm_uses fm).
Definition folder_ok (f : folder) : Prop := Forall mod_ok (f_mods f).
