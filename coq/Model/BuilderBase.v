(** Model of oal_openapi::Builder::into_openapi with a base description, on JSON values: the
    base is the member list of the base document as serde serialises the parsed [OpenAPI]
    value (fixed field order: openapi, info, servers, paths, components, security, tags,
    externalDocs, extensions; absent options and empty collections skipped). The generated
    paths replace the member "paths" in place; the generated schema components replace
    "schemas" inside "components" (first field of [Components]; skipped when empty), every other
    member of "components" is kept; a base without "components" gets one right after "paths". *)
From Oal Require Export Builder.
Local Open Scope N_scope.

Definition teq (a b : text) : bool := if list_eq_dec N.eq_dec a b then true else false.

Fixpoint remove_key (k : text) (m : list (text * json)) : list (text * json) :=
  match m with
  | [] => []
  | (k', v) :: m' => if teq k k' then remove_key k m' else (k', v) :: remove_key k m'
  end.

Fixpoint insert_after (k0 : text) (kv : text * json) (m : list (text * json)) : list (text * json) :=
  match m with
  | [] => [kv]
  | (k', v) :: m' => if teq k0 k' then (k', v) :: kv :: m' else (k', v) :: insert_after k0 kv m'
  end.

Definition merge_components (cs cm : list (text * json)) : list (text * json) :=
  let rest := remove_key T_schemas cm in
  match cs with [] => rest | _ => (T_schemas, JObj cs) :: rest end.

Definition with_base (base : list (text * json)) (ps : json) (cs : list (text * json)) : list (text * json) :=
  let b1 := put T_paths ps base in
  match get T_components b1 with
  | Some (JObj cm) => put T_components (JObj (merge_components cs cm)) b1
  | Some _ => put T_components (JObj (merge_components cs [])) b1
  | None => insert_after T_paths (T_components, JObj (merge_components cs [])) b1
  end.

(** Builder::default_base *)
Definition default_base : list (text * json) :=
  [(T_openapi, JStr T_v303);
   (T_info, JObj [(T_title, JStr T_deftitle); (T_version, JStr T_v010)]);
   (T_servers, JArr [JObj [(T_url, JStr T_slash)]]);
   (T_paths, JObj [])].

Section BuilderBase.
  Variable strs : N -> text.
  Variable table : list (rkey * schema).
  Variable names : list text.

  Definition document_with_base (base : list (text * json)) (rels : list relation) : option json :=
    obind (paths_json strs table names rels) (fun ps =>
    obind (components strs table names table 0 []) (fun cs =>
      Some (JObj (with_base base ps cs)))).
End BuilderBase.
