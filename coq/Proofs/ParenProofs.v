(** Parentheses are free (C05, evaluator stage): removing every sub-expression node ([ESub],
    a parenthesised expression) from a whole program and from the evaluated expression does
    not change the result of the evaluator model: same value, same reference table, same error
    or panic, for the code's semantics and for the lexical one. Hence any two programs that
    differ only in where parentheses stand evaluate to the same result whenever both
    evaluations end; and the evaluation of the parenthesised program ends whenever that of the
    stripped one does, with fuel multiplied by the nesting depth of the parentheses. Values
    and states never contain expressions, so these are equations between results. *)
From Oal Require Import Eval FuelProofs.
From Coq Require Import Lia.
Local Open Scope N_scope.

Fixpoint strip (e : expr) : expr :=
  match e with
  | ETerm anns e' => ETerm anns (strip e')
  | ESub e' => strip e'
  | EPrim p => EPrim p
  | ELitStr x => ELitStr x
  | ELitNum x => ELitNum x
  | ELitStat x => ELitStat x
  | EDecl m i => EDecl m i
  | EConcat => EConcat
  | EBind x => EBind x
  | EApp f args => EApp (strip f) (map strip args)
  | ERec m i x e' => ERec m i x (strip e')
  | EObj ps => EObj (map strip ps)
  | EProp name req e' => EProp name req (strip e')
  | EUnary b e' => EUnary b (strip e')
  | EArr e' => EArr (strip e')
  | EOp op es => EOp op (map strip es)
  | ECont body metas =>
      ECont (option_map strip body) (map (fun ke => match ke with (k, e') => (k, strip e') end) metas)
  | EXfer ms dom rg prm => EXfer ms (option_map strip dom) (strip rg) (option_map strip prm)
  | EUri segs prm =>
      EUri (map (fun sg => match sg with inl x => inl x | inr e' => inr (strip e') end) segs) (option_map strip prm)
  | ERel u xs => ERel (strip u) (map strip xs)
  end.

Definition strip_meta (ke : N * expr) : N * expr := match ke with (k, e') => (k, strip e') end.
Definition strip_seg (sg : str + expr) : str + expr := match sg with inl x => inl x | inr e' => inr (strip e') end.
Definition strip_decl (d : decl) : decl := mk_decl (d_ref d) (d_rec d) (d_anns d) (d_params d) (strip (d_rhs d)).
Definition strip_prog (P : prog) : prog := map (map strip_decl) P.

Lemma get_decl_strip P m i : get_decl (strip_prog P) m i = option_map strip_decl (get_decl P m i).
Proof.
  unfold get_decl, strip_prog. rewrite nth_error_map. destruct (nth_error P (N.to_nat m)) as [ds|]; cbn [option_map]; [|reflexivity].
  rewrite nth_error_map. reflexivity.
Qed.

Lemma lef_trans {A} (a b c : res A) : lef a b -> lef b c -> lef a c.
Proof. intros [->| ->] H; [left; reflexivity|exact H]. Qed.

(** the traversals over a mapped list *)
Lemma map_st_map {X Y B} (g : X -> Y) (f : st -> Y -> res (st * B)) l : forall s,
  map_st f s (map g l) = map_st (fun s x => f s (g x)) s l.
Proof.
  induction l as [|x l IH]; intros s; cbn [map map_st]; [reflexivity|].
  destruct (f s (g x)) as [[s1 b]| | |]; cbn [bind]; try reflexivity. rewrite IH. reflexivity.
Qed.

Lemma opt_st_map {X Y B} (g : X -> Y) (f : st -> Y -> res (st * B)) o s :
  opt_st f s (option_map g o) = opt_st (fun s x => f s (g x)) s o.
Proof. destruct o; reflexivity. Qed.

Lemma bind_args_map (g : expr -> expr) ev args : forall s ps sc,
  bind_args ev s ps (map g args) sc = bind_args (fun s e => ev s (g e)) s ps args sc.
Proof.
  induction args as [|a args IH]; intros s ps sc; [destruct ps; reflexivity|].
  destruct ps as [|p ps]; [reflexivity|]. cbn [map bind_args].
  destruct (ev s (g a)) as [[s1 v]| | |]; cbn [bind]; try reflexivity. apply IH.
Qed.

Lemma eval_metas_map (g : expr -> expr) ev ms : forall s acc,
  eval_metas ev s (map (fun ke : N * expr => match ke with (k, e') => (k, g e') end) ms) acc =
  eval_metas (fun s e => ev s (g e)) s ms acc.
Proof.
  induction ms as [|[k rhs] ms IH]; intros s acc; cbn [map eval_metas]; [reflexivity|].
  destruct (ev s (g rhs)) as [[s1 v]| | |]; cbn [bind]; try reflexivity.
  destruct acc as [[status media] headers].
  destruct k as [|[p|p|]]; (match goal with |- bind ?c _ = bind ?c _ => destruct c; cbn [bind]; try reflexivity end); apply IH.
Qed.

Section Strip.
  Variable lx : bool.
  Variable P : prog.
  Notation P' := (strip_prog P).

  Theorem eval_strip : forall n s e a, lef (eval lx P n s e a) (eval lx P' n s (strip e) a).
  Proof.
    induction n as [|n IH]; intros s e a; [left; reflexivity|].
    set (EV := fun s e => eval lx P n s e []) in *.
    set (EV' := fun s e => eval lx P' n s (strip e) []) in *.
    assert (IH0 : forall s e, lef (EV s e) (EV' s e)) by (intros; apply IH).
    destruct e; cbn [eval strip]; fold EV.
    - (* ETerm *) apply pure_lef. intros x. apply IH.
    - (* ESub *) eapply lef_trans; [apply IH|apply eval_fuel_step].
    - apply lef_refl.
    - apply lef_refl.
    - apply lef_refl.
    - apply lef_refl.
    - (* EDecl *)
      rewrite get_decl_strip. destruct (get_decl P m i) as [d|]; cbn [option_map]; [|apply lef_refl].
      cbn [strip_decl d_params d_anns d_ref d_rec d_rhs].
      destruct (d_params d); [|apply lef_refl].
      apply pure_lef. intros da.
      destruct ((match d_ref d with Some _ => true | None => false end) || d_rec d); [|apply IH].
      destruct (rget _ (refs s)) as [[v|]|]; try apply lef_refl.
      apply bind_lef; [apply IH|]. intros [s2 v]. apply lef_refl.
    - apply lef_refl.
    - apply lef_refl.
    - (* EApp *)
      apply bind_lef; [apply IH|]. intros [s1 fv]. apply pure_lef. intros lam.
      destruct lam; try (rewrite map_st_map; apply bind_lef; [apply (map_st_lef EV EV' IH0)|]; intros [s2 vs]; apply lef_refl).
      rewrite get_decl_strip. destruct (get_decl P m i) as [d|]; cbn [option_map]; [|apply lef_refl].
      cbn [strip_decl d_params d_anns d_ref d_rec d_rhs]. rewrite bind_args_map.
      apply bind_lef; [apply (bind_args_lef EV EV' IH0)|]. intros [s2 sc]. apply pure_lef. intros da.
      rewrite map_length. destruct lx.
      + destruct (Nat.ltb _ _); [apply lef_refl|]. apply bind_lef; [apply IH|]. intros [s3 r]. apply lef_refl.
      + apply bind_lef; [apply IH|]. intros [s3 r]. apply lef_refl.
    - (* ERec *)
      apply bind_lef; [apply IH|]. intros [s1 rhs]. apply lef_refl.
    - (* EObj *)
      rewrite map_st_map.
      apply bind_lef; [apply map_st_lef; intros s0 x; apply (step_lef EV EV' IH0)|]. intros [s1 props]. apply lef_refl.
    - apply bind_lef; [apply IH0|]. intros [s1 v]. apply lef_refl.
    - apply bind_lef; [apply IH0|]. intros [s1 v]. apply lef_refl.
    - apply bind_lef; [apply IH0|]. intros [s1 v]. apply lef_refl.
    - (* EOp *)
      destruct (N.eqb op 3).
      + rewrite map_st_map.
        apply bind_lef; [apply map_st_lef; intros s0 x; apply (step_lef EV EV' IH0)|]. intros [s1 rs]. apply lef_refl.
      + destruct (vop_of op) as [vo|]; [|apply lef_refl]. rewrite map_st_map.
        apply bind_lef; [apply map_st_lef; intros s0 x; apply (step_lef EV EV' IH0)|]. intros [s1 rs]. apply lef_refl.
    - (* ECont *)
      rewrite opt_st_map.
      apply bind_lef; [apply opt_st_lef; intros s0 x; apply (step_lef EV EV' IH0)|]. intros [s1 schema].
      rewrite eval_metas_map.
      apply bind_lef; [apply (eval_metas_lef EV EV' IH0)|]. intros [s2 [[status media] headers]]. apply lef_refl.
    - (* EXfer *)
      rewrite opt_st_map.
      apply bind_lef; [apply opt_st_lef; intros s0 x; apply (step_lef EV EV' IH0)|]. intros [s1 dom].
      apply bind_lef; [apply IH0|]. intros [s2 rv]. apply pure_lef. intros rg. rewrite opt_st_map.
      apply bind_lef; [apply opt_st_lef; intros s0 x; apply (step_lef EV EV' IH0)|]. intros [s3 prm]. apply lef_refl.
    - (* EUri *)
      rewrite map_st_map.
      apply bind_lef.
      + apply map_st_lef. intros s0 [x|v]; [apply lef_refl|]. apply bind_lef; [apply IH0|]. intros [s1 pv]. apply lef_refl.
      + intros [s1 path]. rewrite opt_st_map. apply bind_lef; [apply opt_st_lef; intros s0 x; apply (step_lef EV EV' IH0)|]. intros [s2 prm]. apply lef_refl.
    - (* ERel *)
      apply bind_lef; [apply IH0|]. intros [s1 uv]. apply pure_lef. intros ur.
      rewrite map_st_map.
      apply bind_lef; [apply map_st_lef; intros s0 x; apply (step_lef EV EV' IH0)|]. intros [s2 ts]. apply lef_refl.
  Qed.

  Theorem eval_program_strip n rs : lef (eval_program lx P n rs) (eval_program lx P' n (map strip rs)).
  Proof.
    unfold eval_program. rewrite map_st_map. apply bind_lef.
    - apply map_st_lef. intros s x. apply bind_lef; [apply eval_strip|]. intros [s1 v]. apply lef_refl.
    - intros [s1 rels]. apply lef_refl.
  Qed.
End Strip.

(** two programs that differ only in parentheses: whenever both evaluations end, they end alike *)
Theorem parentheses_are_free lx P1 P2 rs1 rs2 n1 n2 :
  strip_prog P1 = strip_prog P2 -> map strip rs1 = map strip rs2 ->
  eval_program lx P1 n1 rs1 <> Fuel -> eval_program lx P2 n2 rs2 <> Fuel ->
  eval_program lx P1 n1 rs1 = eval_program lx P2 n2 rs2.
Proof.
  intros HP Hr H1 H2.
  destruct (eval_program_strip lx P1 n1 rs1) as [E1|E1]; [contradiction|].
  destruct (eval_program_strip lx P2 n2 rs2) as [E2|E2]; [contradiction|].
  rewrite E1, E2, HP, Hr.
  destruct (Nat.le_ge_cases n1 n2) as [Hle|Hle].
  - symmetry. apply (eval_program_fuel_mono lx (strip_prog P2) n1 n2 (map strip rs2)); [reflexivity| |exact Hle].
    rewrite <- HP, <- Hr, <- E1. exact H1.
  - apply (eval_program_fuel_mono lx (strip_prog P2) n2 n1 (map strip rs2)); [reflexivity| |exact Hle].
    rewrite <- E2. exact H2.
Qed.

(** * The converse: the parenthesised program ends whenever the stripped one does *)
Local Open Scope nat_scope.

Fixpoint lead (e : expr) : nat := match e with ESub e' => S (lead e') | _ => 0 end.
Definition lmax (l : list nat) : nat := fold_right Nat.max 0 l.

(** the longest chain of directly nested parentheses anywhere in the expression *)
Fixpoint pd (e : expr) : nat :=
  match e with
  | ETerm _ e' | EProp _ _ e' | EUnary _ e' | EArr e' | ERec _ _ _ e' => pd e'
  | ESub e' => Nat.max (S (lead e')) (pd e')
  | EApp f args => Nat.max (pd f) (lmax (map pd args))
  | EObj ps => lmax (map pd ps)
  | EOp _ es => lmax (map pd es)
  | ECont body metas =>
      Nat.max (match body with Some b => pd b | None => 0 end) (lmax (map (fun ke : N * expr => pd (snd ke)) metas))
  | EXfer _ dom rg prm =>
      Nat.max (match dom with Some b => pd b | None => 0 end) (Nat.max (pd rg) (match prm with Some b => pd b | None => 0 end))
  | EUri segs prm =>
      Nat.max (lmax (map (fun sg : str + expr => match sg with inl _ => 0 | inr e' => pd e' end) segs))
              (match prm with Some b => pd b | None => 0 end)
  | ERel u xs => Nat.max (pd u) (lmax (map pd xs))
  | _ => 0
  end.

Definition pd_prog (P : prog) : nat := lmax (map (fun ds => lmax (map (fun d => pd (d_rhs d)) ds)) P).

Lemma lmax_in x l : In x l -> x <= lmax l.
Proof. induction l as [|y l IH]; [intros []|]. intros [->|H]; cbn [lmax fold_right]; [lia|]. specialize (IH H). unfold lmax in IH. lia. Qed.

Lemma lmax_map_in {A} (f : A -> nat) l x : In x l -> f x <= lmax (map f l).
Proof. intros H. apply lmax_in, in_map, H. Qed.

Lemma lead_le_pd e : lead e <= pd e.
Proof. destruct e; cbn [lead pd]; lia. Qed.

Lemma pd_get_decl P m i d : get_decl P m i = Some d -> pd (d_rhs d) <= pd_prog P.
Proof.
  unfold get_decl, pd_prog. destruct (nth_error P (N.to_nat m)) as [ds|] eqn:E; [|discriminate]. intros H.
  apply nth_error_In in E, H. etransitivity; [|apply (lmax_map_in _ P ds E)]. apply (lmax_map_in (fun d => pd (d_rhs d)) ds d H).
Qed.

Section ListsIn.
  Context {X B : Type}.
  Variables f f' : st -> X -> res (st * B).

  Lemma map_st_lef_in l : (forall s x, In x l -> lef (f s x) (f' s x)) -> forall s, lef (map_st f s l) (map_st f' s l).
  Proof.
    induction l as [|x l IH]; intros Hf s; cbn [map_st]; [apply lef_refl|].
    apply bind_lef; [apply Hf; left; reflexivity|]. intros [s1 b].
    apply bind_lef; [apply IH; intros s0 y Hy; apply Hf; right; exact Hy|]. intros [s2 bs]. apply lef_refl.
  Qed.

  Lemma opt_st_lef_in o s : (forall s x, o = Some x -> lef (f s x) (f' s x)) -> lef (opt_st f s o) (opt_st f' s o).
  Proof.
    intros Hf. destruct o as [x|]; cbn [opt_st]; [|apply lef_refl].
    apply bind_lef; [apply Hf; reflexivity|]. intros [s1 b]. apply lef_refl.
  Qed.
End ListsIn.

Section ArgsIn.
  Variables ev ev' : st -> expr -> res (st * aval).

  Lemma bind_args_lef_in args : (forall s e, In e args -> lef (ev s e) (ev' s e)) ->
    forall s ps sc, lef (bind_args ev s ps args sc) (bind_args ev' s ps args sc).
  Proof.
    induction args as [|a args IH]; intros Hev s ps sc; [destruct ps; apply lef_refl|].
    destruct ps as [|p ps]; [apply lef_refl|]. cbn [bind_args].
    apply bind_lef; [apply Hev; left; reflexivity|]. intros [s1 v]. apply IH. intros s0 e He. apply Hev. right. exact He.
  Qed.

  Lemma eval_metas_lef_in ms : (forall s k e, In (k, e) ms -> lef (ev s e) (ev' s e)) ->
    forall s acc, lef (eval_metas ev s ms acc) (eval_metas ev' s ms acc).
  Proof.
    induction ms as [|[k rhs] ms IH]; intros Hev s acc; cbn [eval_metas]; [apply lef_refl|].
    apply bind_lef; [apply (Hev s k rhs); left; reflexivity|]. intros [s1 v]. destruct acc as [[status media] headers].
    assert (IH' := IH (fun s0 k0 e0 H0 => Hev s0 k0 e0 (or_intror H0))).
    destruct k as [|[p|p|]]; apply pure_lef; intros x; apply IH'.
  Qed.

  Lemma step_lef_c {B} (c : aval -> res B) s e : lef (ev s e) (ev' s e) ->
    lef (do (s', v) <- ev s e; do x <- c v; Ok (s', x)) (do (s', v) <- ev' s e; do x <- c v; Ok (s', x)).
  Proof. intros H. apply bind_lef; [exact H|]. intros [s1 v]. apply lef_refl. Qed.
End ArgsIn.

Lemma lef_more lx P n m s e a (r : res (st * aval)) : lef r (eval lx P n s e a) -> n <= m -> lef r (eval lx P m s e a).
Proof.
  intros [->| ->] Hle; [left; reflexivity|].
  destruct (eval lx P n s e a) eqn:E; try (left; reflexivity); right;
    (replace m with (n + (m - n)) by lia); symmetry; apply eval_fuel_mono; try exact E; discriminate.
Qed.

Section Unstrip.
  Variable lx : bool.
  Variable P : prog.
  Variable d : nat.
  Hypothesis HP : pd_prog P <= d.
  Notation P' := (strip_prog P).

  Theorem eval_unstrip : forall n s e a, pd e <= d ->
    lef (eval lx P' n s (strip e) a) (eval lx P (n * S d + lead e) s e a).
  Proof.
    induction n as [|n IH]; intros s e a Hd; [left; reflexivity|].
    assert (IHa : forall s e a, pd e <= d -> lef (eval lx P' n s (strip e) a) (eval lx P (n * S d + d) s e a)).
    { intros s0 e0 a0 H0. eapply lef_more; [apply IH, H0|]. pose proof (lead_le_pd e0). lia. }
    set (EV := fun s e => eval lx P' n s (strip e) []) in *.
    set (EV' := fun s e => eval lx P (n * S d + d) s e []) in *.
    assert (IH0 : forall s e, pd e <= d -> lef (EV s e) (EV' s e)) by (intros; apply IHa; assumption).
    (* the chain of parentheses at the head *)
    remember (lead e) as k eqn:Ek. revert e a s Hd Ek. induction k as [|k IHk]; intros e a s Hd Ek.
    2:{ destruct e; try discriminate Ek. cbn [lead] in Ek. injection Ek as Ek. cbn [strip pd] in *.
        replace (S n * S d + S k) with (S (S n * S d + k)) by lia. cbn [eval]. apply IHk; [lia|exact Ek]. }
    replace (S n * S d + 0) with (S (n * S d + d)) by lia.
    destruct e; try discriminate Ek; clear Ek; cbn [eval strip]; cbn [pd] in Hd; fold EV'.
    - (* ETerm *) apply pure_lef. intros x. apply IHa, Hd.
    - apply lef_refl.
    - apply lef_refl.
    - apply lef_refl.
    - apply lef_refl.
    - (* EDecl *)
      rewrite get_decl_strip. destruct (get_decl P m i) as [dd|] eqn:Eg; cbn [option_map]; [|apply lef_refl].
      pose proof (pd_get_decl P m i dd Eg) as Hdd.
      cbn [strip_decl d_params d_anns d_ref d_rec d_rhs].
      destruct (d_params dd); [|apply lef_refl].
      apply pure_lef. intros da.
      destruct ((match d_ref dd with Some _ => true | None => false end) || d_rec dd); [|apply IHa; lia].
      destruct (rget _ (refs s)) as [[v|]|]; try apply lef_refl.
      apply bind_lef; [apply IHa; lia|]. intros [s2 v]. apply lef_refl.
    - apply lef_refl.
    - apply lef_refl.
    - (* EApp *)
      assert (Hargs : forall s0 x, In x args -> lef (EV s0 x) (EV' s0 x)).
      { intros s0 x Hx. apply IH0. pose proof (lmax_map_in pd args x Hx). lia. }
      apply bind_lef; [apply IHa; lia|]. intros [s1 fv]. apply pure_lef. intros lam.
      destruct lam; try (rewrite map_st_map; apply bind_lef; [apply (map_st_lef_in EV EV' args Hargs)|]; intros [s2 vs]; apply lef_refl).
      rewrite get_decl_strip. destruct (get_decl P m i) as [dd|] eqn:Eg; cbn [option_map]; [|apply lef_refl].
      pose proof (pd_get_decl P m i dd Eg) as Hdd.
      cbn [strip_decl d_params d_anns d_ref d_rec d_rhs]. rewrite bind_args_map.
      apply bind_lef; [apply (bind_args_lef_in EV EV' args Hargs)|]. intros [s2 sc]. apply pure_lef. intros da.
      rewrite map_length. destruct lx.
      + destruct (Nat.ltb _ _); [apply lef_refl|]. apply bind_lef; [apply IHa; lia|]. intros [s3 r]. apply lef_refl.
      + apply bind_lef; [apply IHa; lia|]. intros [s3 r]. apply lef_refl.
    - (* ERec *)
      apply bind_lef; [apply IHa, Hd|]. intros [s1 rhs]. apply lef_refl.
    - (* EObj *)
      rewrite map_st_map.
      apply bind_lef; [|intros [s1 props]; apply lef_refl].
      apply map_st_lef_in. intros s0 x Hx. apply (step_lef_c EV EV'), IH0. pose proof (lmax_map_in pd ps x Hx). lia.
    - apply bind_lef; [apply IH0, Hd|]. intros [s1 v]. apply lef_refl.
    - apply bind_lef; [apply IH0, Hd|]. intros [s1 v]. apply lef_refl.
    - apply bind_lef; [apply IH0, Hd|]. intros [s1 v]. apply lef_refl.
    - (* EOp *)
      assert (Hes : forall s0 x, In x es -> lef (EV s0 x) (EV' s0 x)).
      { intros s0 x Hx. apply IH0. pose proof (lmax_map_in pd es x Hx). lia. }
      destruct (N.eqb op 3).
      + rewrite map_st_map.
        apply bind_lef; [|intros [s1 rs]; apply lef_refl].
        apply map_st_lef_in. intros s0 x Hx. apply (step_lef_c EV EV'), Hes, Hx.
      + destruct (vop_of op) as [vo|]; [|apply lef_refl]. rewrite map_st_map.
        apply bind_lef; [|intros [s1 rs]; apply lef_refl].
        apply map_st_lef_in. intros s0 x Hx. apply (step_lef_c EV EV'), Hes, Hx.
    - (* ECont *)
      rewrite opt_st_map.
      apply bind_lef; [apply opt_st_lef_in; intros s0 x ->; apply (step_lef_c EV EV'), IH0; lia|]. intros [s1 schema].
      rewrite eval_metas_map.
      apply bind_lef; [|intros [s2 [[status media] headers]]; apply lef_refl].
      apply eval_metas_lef_in. intros s0 k0 e0 Hin. apply IH0.
      pose proof (lmax_map_in (fun ke : N * expr => pd (snd ke)) metas (k0, e0) Hin) as Hm. cbn [snd] in Hm. lia.
    - (* EXfer *)
      rewrite opt_st_map.
      apply bind_lef; [apply opt_st_lef_in; intros s0 x ->; apply (step_lef_c EV EV'), IH0; lia|]. intros [s1 dom].
      apply bind_lef; [apply IH0; lia|]. intros [s2 rv]. apply pure_lef. intros rg. rewrite opt_st_map.
      apply bind_lef; [apply opt_st_lef_in; intros s0 x ->; apply (step_lef_c EV EV'), IH0; lia|]. intros [s3 prm]. apply lef_refl.
    - (* EUri *)
      rewrite map_st_map.
      apply bind_lef.
      + apply map_st_lef_in. intros s0 [x|v] Hin; [apply lef_refl|]. apply bind_lef; [|intros [s1 pv]; apply lef_refl].
        apply IH0. pose proof (lmax_map_in (fun sg : str + expr => match sg with inl _ => 0 | inr e' => pd e' end) segs (inr v) Hin) as Hm.
        cbn beta iota in Hm. lia.
      + intros [s1 path]. rewrite opt_st_map.
        apply bind_lef; [apply opt_st_lef_in; intros s0 x ->; apply (step_lef_c EV EV'), IH0; lia|]. intros [s2 prm]. apply lef_refl.
    - (* ERel *)
      apply bind_lef; [apply IH0; lia|]. intros [s1 uv]. apply pure_lef. intros ur.
      rewrite map_st_map.
      apply bind_lef; [|intros [s2 ts]; apply lef_refl].
      apply map_st_lef_in. intros s0 x Hx. apply (step_lef_c EV EV'), IH0. pose proof (lmax_map_in pd xfers x Hx). lia.
  Qed.

  Theorem eval_program_unstrip n rs : (forall r, In r rs -> pd r <= d) ->
    lef (eval_program lx P' n (map strip rs)) (eval_program lx P (n * S d + d) rs).
  Proof.
    intros Hrs. unfold eval_program. rewrite map_st_map. apply bind_lef.
    - apply map_st_lef_in. intros s x Hx. apply bind_lef; [|intros [s1 v]; apply lef_refl].
      eapply lef_more; [apply eval_unstrip, Hrs, Hx|]. pose proof (lead_le_pd x). specialize (Hrs x Hx). lia.
    - intros [s1 rels]. apply lef_refl.
  Qed.
End Unstrip.

(** adding parentheses anywhere keeps the result, and the evaluation still ends: if a program
    evaluates with fuel [n], every program with the same stripped form evaluates to the same
    result with fuel [n * (d + 1) + d], [d] its deepest nest of parentheses *)
Theorem parenthesised_program_evaluates lx P1 P2 rs1 rs2 n r d :
  strip_prog P1 = strip_prog P2 -> map strip rs1 = map strip rs2 ->
  pd_prog P2 <= d -> (forall x, In x rs2 -> pd x <= d) ->
  eval_program lx P1 n rs1 = r -> r <> Fuel ->
  eval_program lx P2 (n * S d + d) rs2 = r.
Proof.
  intros HP Hr Hd Hrs H Hne.
  destruct (eval_program_strip lx P1 n rs1) as [E1|E1]; [congruence|].
  destruct (eval_program_unstrip lx P2 d Hd n rs2 Hrs) as [E2|E2].
  - rewrite <- HP, <- Hr, <- E1 in E2. congruence.
  - rewrite <- E2, <- HP, <- Hr, <- E1. exact H.
Qed.

Local Open Scope N_scope.
(** non-vacuity: a program with parentheses around a body, an argument and a whole resource;
    it differs from its stripped form and both evaluate to the same document *)
Example ex_paren_P : prog :=
  [[ mk_decl None false [] [7] (ESub (EObj [EProp 20 None (ESub (ESub (ETerm [] (EBind 7))))]));
     mk_decl None false [] [7] (EApp (EDecl 0 0) [ESub (ETerm [] (EBind 7))]) ]].
Example ex_paren_rs : list expr :=
  [ERel (ETerm [] (EUri [inl 30] None))
        [EXfer [0] None (ECont (Some (ESub (EApp (EDecl 0 1) [ETerm [] (EPrim 1)]))) []) None]].
Example ex_parentheses :
  strip_prog ex_paren_P <> ex_paren_P /\ pd_prog ex_paren_P = 2%nat /\
  exists r, eval_program false ex_paren_P 50 ex_paren_rs = Ok r /\
            eval_program false (strip_prog ex_paren_P) 50 (map strip ex_paren_rs) = Ok r.
Proof. split; [discriminate|]. split; [reflexivity|]. eexists. split; vm_compute; reflexivity. Qed.
