(** Extraction of the executable model (ExtrOcamlBasic only; numbers stay
    extracted inductives). *)
From Coq Require Import Extraction ExtrOcamlBasic.
From Oal Require Import Text Position Tag Unify Loader Merge SpecUri Cast Cycles Resolve Lsp Peg Grammar Responses EvalIO Lexer Diag Folder.
Extraction Language OCaml.
Separate Extraction
  Text.len8s Text.len16s Text.crlf_wf Text.split_at8 Text.utf16
  Position.position_to_utf8 Position.utf8_to_position Position.utf8_range_to_position
  Position.utf8_to_char_index Position.char_span Position.pos_spec Position.select16
  Unify.unify_all Unify.reduce Unify.unify
  Loader.load Loader.topo_kahn Loader.join
  Merge.into_openapi
  SpecUri.pattern SpecUri.path_params SpecUri.xfer_id SpecUri.status_of_number SpecUri.status_of_literal SpecUri.braces
  Cast.check Cast.admits Cast.cast_ok Cast.known
  Cycles.cycles_check
  Resolve.resolve_module
  Lsp.run
  Grammar.parse_pure Grammar.parse_memo
  Responses.xfer_responses
  EvalIO.run_eval EvalIO.run_eval_lexical EvalIO.run_typing EvalIO.run_strat EvalIO.run_doc EvalIO.run_doc_base EvalIO.run_edges
  Lexer.tokenize Lexer.spans
  Diag.diagnostics
  Folder.f_goto Folder.f_references Folder.f_rename Folder.f_prepare.
