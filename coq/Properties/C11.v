(** Property C11 — the syntax tree is lossless and every reported span is exact.

    Proved here, for every grammar of the embedding, every token list and fuel: the leaves of
    the matches a parser returns are exactly the non-trivia tokens between the start cursor
    and the returned cursor, in source order, each once; cursors move forward only and rest
    on non-trivia tokens ([yield]); for the oal grammar the leaves of the program tree are
    the non-trivia tokens of the parsed prefix. A node's span in grammar.rs is computed from
    its first and last leaf, so it is the hull of its leaves by construction. The tokenizer
    is modelled for texts without lexical errors ([Lexer.tokenize]: maximal munch over the 54
    token patterns, tied to the logos-generated automaton by the correspondence check): when
    a text tokenizes, the tokens are non-empty, their spans are consecutive from 0 to the
    UTF-8 length of the text, and every span bound is the UTF-8 length of a prefix of the
    text, i.e. a character boundary ([C11_tokens_tile], [C11_token_spans_tile],
    [C11_token_spans_on_boundaries]). Carried by the monitor on the real tokenizer: the
    extent of lexical-error spans (they depend on the generated automaton and are not
    modelled), token values are source slices, diagnostic spans lie in the text. *)
From Oal Require Import Text Lexer LexerProofs Peg Grammar PegProofs PegYield GrammarProofs.
From Oal Require TriviaProofs.
Local Open Scope nat_scope.

Theorem C11_yield :
  forall class_ok is_trivia K g toks n p s acc s' ms,
  aligned is_trivia toks s -> s <= length toks ->
  run class_ok is_trivia K g toks n p s acc = Ok s' ms ->
  s <= s' /\ s' <= length toks /\ aligned is_trivia toks s' /\ leaves_of ms = ntriv is_trivia toks s s'.
Proof. exact yield. Qed.
Print Assumptions C11_yield.

Theorem C11_oal_yield : forall n toks s' ms,
  parse_pure n toks = Ok s' ms ->
  s' <= length toks /\ leaves_of ms = ntriv Grammar.is_trivia toks 0 s'.
Proof. exact oal_yield. Qed.
Print Assumptions C11_oal_yield.

Theorem C11_leaves_in_source_order :
  forall is_trivia toks s e i j, nth_error (ntriv is_trivia toks s e) i <> None -> nth_error (ntriv is_trivia toks s e) j <> None -> i < j ->
  forall a b, nth_error (ntriv is_trivia toks s e) i = Some a -> nth_error (ntriv is_trivia toks s e) j = Some b -> a < b.
Proof. exact ntriv_sorted. Qed.
Print Assumptions C11_leaves_in_source_order.

(** tokenizer: the tokens of a text without lexical error tile it *)
Theorem C11_tokens_tile : forall t toks, tokenize t = Some toks ->
  Forall (fun kn => 1 <= snd kn) toks /\ total toks = length t /\ length toks <= length t.
Proof. exact tokenize_tiles. Qed.
Print Assumptions C11_tokens_tile.

Theorem C11_token_spans_tile : forall t toks, tokenize t = Some toks ->
  chain 0 (spans toks t 0) (len8s t).
Proof. exact tokenize_spans_tile. Qed.
Print Assumptions C11_token_spans_tile.

Theorem C11_token_spans_on_boundaries : forall t toks k a b, tokenize t = Some toks ->
  In (k, a, b) (spans toks t 0) ->
  exists p1 p2 q, t = p1 ++ p2 ++ q /\ a = len8s p1 /\ b = len8s (p1 ++ p2).
Proof. exact tokenize_spans_on_boundaries. Qed.
Print Assumptions C11_token_spans_on_boundaries.

(** the fuel [tokenize] passes to [lex] is never the reason for an error answer *)
Theorem C11_tokenizer_fuel_irrelevant : forall f1 f2 t, length t <= f1 -> length t <= f2 -> lex f1 t = lex f2 t.
Proof. exact lex_fuel. Qed.
Print Assumptions C11_tokenizer_fuel_irrelevant.

Example C11_tokenizer_nonvacuous : option_map (fun toks => spans toks ex_text 0%N) (tokenize ex_text)
  = Some [(20, 0, 3); (0, 3, 4); (26, 4, 5); (0, 5, 6); (48, 6, 7); (0, 7, 8); (29, 8, 15); (40, 15, 16)]%N.
Proof. exact ex_tokenizes. Qed.

(** the tree is a function of the non-trivia tokens: generic in the grammar *)
Theorem C11_trivia_free : forall class_ok is_trivia K g toks n p s acc,
  aligned is_trivia toks s -> s <= length toks -> Forall (TriviaProofs.leaf_ok is_trivia toks) acc ->
  run class_ok is_trivia K g (TriviaProofs.toks' is_trivia toks) n p (TriviaProofs.phi is_trivia toks s) (map (TriviaProofs.tm is_trivia toks) acc) =
  TriviaProofs.rmap is_trivia toks (run class_ok is_trivia K g toks n p s acc) /\
  (forall s' ms, run class_ok is_trivia K g toks n p s acc = Ok s' ms -> Forall (TriviaProofs.leaf_ok is_trivia toks) ms).
Proof. exact TriviaProofs.trivia_free. Qed.
Print Assumptions C11_trivia_free.

(** maximal munch of the tokenizer model: the token taken at a position is a longest match of
    any of the 54 kinds, and of the first kind in declaration order among the longest *)
Theorem C11_maximal_munch : forall t k0 n0, best t = Some (k0, n0) ->
  1 <= n0 /\ match_kind k0 t = Some n0 /\
  (forall k n, k < NKINDS -> match_kind (N.of_nat k) t = Some n -> n <= n0) /\
  (forall k n, (N.of_nat k < k0)%N -> match_kind (N.of_nat k) t = Some n -> n < n0).
Proof. exact best_is_maximal_munch. Qed.
Print Assumptions C11_maximal_munch.

Theorem C11_lexical_error_means_no_match : forall t, best t = None ->
  forall k n, k < NKINDS -> match_kind (N.of_nat k) t = Some n -> n = 0.
Proof. exact best_none. Qed.
Print Assumptions C11_lexical_error_means_no_match.
