(** The handlers over a folder (Model/Folder.v): go-to-definition answers with the node of the
    binder in whichever module it lives, find-references with exactly the uses bound to the
    definition across the modules, and the two are inverse. *)
From Coq Require Import Lia.
From Oal Require Import Handlers HandlersProofs Folder.

Lemma mod_at_ok f m : folder_ok f -> mod_ok (mod_at f m).
Proof.
  unfold folder_ok, mod_at. intros H. destruct (nth_in_or_default m (f_mods f) no_mod) as [Hin| ->].
  - rewrite Forall_forall in H. apply H. exact Hin.
  - split; [exact I|constructor].
Qed.

Lemma mod_at_nth_error f m fm : nth_error (f_mods f) m = Some fm -> mod_at f m = fm.
Proof. unfold mod_at. intros H. apply nth_error_nth. exact H. Qed.

(** go-to-definition *)
Theorem f_goto_correct f m idx u d i n :
  folder_ok f -> In u (uses_of (mod_at f m)) -> u_start u <= idx < u_end u ->
  u_def u = Some d -> internal f d = false -> locate f d = Some (i, n) ->
  f_goto f m idx = Some (i, n_start n, n_end n).
Proof.
  intros Hok Hin Hidx Hd Hint Hloc. unfold f_goto.
  rewrite (goto_correct _ (proj1 (mod_at_ok f m Hok)) u idx Hin Hidx), Hd, Hint, Hloc. reflexivity.
Qed.

Theorem f_goto_builtin f m idx u d :
  folder_ok f -> In u (uses_of (mod_at f m)) -> u_start u <= idx < u_end u ->
  u_def u = Some d -> internal f d = true -> f_goto f m idx = None.
Proof.
  intros Hok Hin Hidx Hd Hint. unfold f_goto.
  rewrite (goto_correct _ (proj1 (mod_at_ok f m Hok)) u idx Hin Hidx), Hd, Hint. reflexivity.
Qed.

Theorem f_goto_outside f m idx :
  (forall u, In u (uses_of (mod_at f m)) -> ~ (u_start u <= idx < u_end u)) -> f_goto f m idx = None.
Proof. intros H. unfold f_goto. rewrite (goto_outside _ _ H). reflexivity. Qed.

(** find-references *)
Lemma refs_from_exact ms k d i s e :
  In (i, s, e) (refs_from ms k d) <->
  exists j fm u, nth_error ms j = Some fm /\ i = (k + j)%nat /\ In u (uses_of fm) /\ u_def u = Some d /\ s = u_istart u /\ e = u_iend u.
Proof.
  revert k. induction ms as [|fm ms IH]; intros k; cbn [refs_from].
  - split; [intros []|]. intros (j & fm & u & H & _). destruct j; discriminate.
  - rewrite in_app_iff, in_map_iff, IH. split.
    + intros [(u & Heq & Hu)|(j & fm' & u & Hn & Hi & Hu)].
      * inversion Heq; subst. apply refs_exact in Hu. destruct Hu as [Hu Hd].
        exists 0%nat, fm, u. cbn [nth_error]. repeat split; try assumption. lia.
      * exists (S j), fm', u. cbn [nth_error]. repeat split; try tauto. lia.
    + intros (j & fm' & u & Hn & Hi & Hu & Hd & Hs & He). destruct j as [|j]; cbn [nth_error] in Hn.
      * inversion Hn; subst fm'. left. exists u. split; [|apply refs_exact; tauto].
        subst. f_equal. f_equal. lia.
      * right. exists j, fm', u. repeat split; try assumption. lia.
Qed.

Theorem f_refs_exact f d i s e :
  In (i, s, e) (f_refs f d) <->
  exists fm u, nth_error (f_mods f) i = Some fm /\ In u (uses_of fm) /\ u_def u = Some d /\ s = u_istart u /\ e = u_iend u.
Proof.
  unfold f_refs. rewrite refs_from_exact. split.
  - intros (j & fm & u & Hn & Hi & H). cbn in Hi. subst j. exists fm, u. tauto.
  - intros (fm & u & Hn & H). exists i, fm, u. cbn. tauto.
Qed.

Lemma ident_inside us : ordered us -> forall u, In u us -> u_start u <= u_istart u < u_end u.
Proof.
  induction us as [|w us IH]; intros Ho u Hin; [destruct Hin|].
  cbn [ordered] in Ho. destruct Hin as [<-|Hin]; [lia|]. apply IH; tauto.
Qed.

(** every reference goes back to the definition *)
Theorem f_refs_inverse f d md n :
  folder_ok f -> internal f d = false -> locate f d = Some (md, n) ->
  forall i s e, In (i, s, e) (f_refs f d) -> f_goto f i s = Some (md, n_start n, n_end n).
Proof.
  intros Hok Hint Hloc i s e Hin. apply f_refs_exact in Hin. destruct Hin as (fm & u & Hn & Hu & Hd & -> & _).
  pose proof (mod_at_nth_error f i fm Hn) as Hm.
  apply (f_goto_correct f i (u_istart u) u d md n Hok); try assumption.
  - rewrite Hm. exact Hu.
  - apply (ident_inside (uses_of fm)); [|exact Hu]. rewrite <- Hm. exact (proj1 (mod_at_ok f i Hok)).
Qed.

(** the request positions: the identifier of a declaration, the identifiers of a variable *)
Theorem f_find_definition_on_declaration f m idx n :
  In n (fm_nodes (mod_at f m)) -> n_decl n = true -> n_istart n <= idx < n_iend n ->
  (forall n', In n' (fm_nodes (mod_at f m)) -> n_decl n' = true -> n_istart n' <= idx < n_iend n' -> n_id n' = n_id n) ->
  f_find_definition f m idx = Some (n_id n).
Proof.
  intros Hin Hdecl Hidx Huniq. unfold f_find_definition.
  assert (H : decl_ident_at (fm_nodes (mod_at f m)) idx = Some (n_id n)).
  { induction (fm_nodes (mod_at f m)) as [|w ns IH]; [destruct Hin|]. cbn [decl_ident_at].
    destruct (n_decl w && contains (n_istart w) (n_iend w) idx) eqn:E.
    - apply andb_true_iff in E. destruct E as [E1 E2]. apply contains_spec in E2.
      f_equal. apply Huniq; [left; reflexivity|exact E1|exact E2].
    - destruct Hin as [<-|Hin].
      + rewrite Hdecl, (proj2 (contains_spec _ _ _) Hidx) in E. discriminate.
      + apply IH; [exact Hin|]. intros n' Hn'. apply Huniq. right. exact Hn'. }
  rewrite H. reflexivity.
Qed.

Lemma on_ident_inside v idx : vuse_ok v -> u_start (v_use v) <= u_istart (v_use v) < u_end (v_use v) -> u_iend (v_use v) <= u_end (v_use v) ->
  on_ident v idx = true -> u_start (v_use v) <= idx < u_end (v_use v).
Proof.
  unfold on_ident, vuse_ok. intros Hq H1 H2 H. apply orb_true_iff in H. destruct H as [H|H].
  - apply contains_spec in H. lia.
  - destruct (v_q v) as [[[s e] x]|]; [|discriminate]. apply contains_spec in H. lia.
Qed.

Lemma var_ident_at_inside vs : ordered (map v_use vs) -> Forall vuse_ok vs ->
  forall v idx, In v vs -> on_ident v idx = true -> var_ident_at vs idx = Some v.
Proof.
  induction vs as [|w vs IH]; intros Ho Hq v idx Hin Hon; [destruct Hin|].
  cbn [var_ident_at]. destruct Hin as [<-|Hin]; [rewrite Hon; reflexivity|].
  destruct (on_ident w idx) eqn:E; [|apply IH; [eapply ordered_tail; exact Ho|inversion Hq; assumption|exact Hin|exact Hon]].
  exfalso. inversion Hq as [|? ? Hw Hvs]; subst.
  pose proof (ordered_after (v_use w) (map v_use vs) Ho (v_use v) (in_map v_use vs v Hin)) as Hafter.
  assert (Hov : ordered (map v_use vs)) by (eapply ordered_tail; exact Ho).
  pose proof (ident_inside _ Hov (v_use v) (in_map v_use vs v Hin)) as Hv1.
  assert (Hv2 : u_iend (v_use v) <= u_end (v_use v)).
  { clear -Hov Hin. induction vs as [|x vs IH]; [destruct Hin|]. cbn [map ordered] in Hov.
    destruct Hin as [<-|Hin]; [lia|apply IH; tauto]. }
  cbn [map ordered] in Ho.
  rewrite Forall_forall in Hvs.
  pose proof (on_ident_inside w idx Hw ltac:(lia) ltac:(lia) E).
  pose proof (on_ident_inside v idx (Hvs v Hin) Hv1 Hv2 Hon). lia.
Qed.

Theorem f_find_definition_on_variable f m idx v :
  folder_ok f -> In v (fm_uses (mod_at f m)) -> on_ident v idx = true ->
  (forall n, In n (fm_nodes (mod_at f m)) -> n_decl n = true -> ~ (n_istart n <= idx < n_iend n)) ->
  f_find_definition f m idx = u_def (v_use v).
Proof.
  intros Hok Hin Hon Hno. unfold f_find_definition.
  assert (H : decl_ident_at (fm_nodes (mod_at f m)) idx = None).
  { induction (fm_nodes (mod_at f m)) as [|w ns IH]; [reflexivity|]. cbn [decl_ident_at].
    destruct (n_decl w && contains (n_istart w) (n_iend w) idx) eqn:E.
    - apply andb_true_iff in E. destruct E as [E1 E2]. apply contains_spec in E2.
      exfalso. apply (Hno w); [left; reflexivity|exact E1|exact E2].
    - apply IH. intros n Hn. apply Hno. right. exact Hn. }
  rewrite H. destruct (mod_at_ok f m Hok) as [Ho Hq].
  rewrite (var_ident_at_inside _ Ho Hq v idx Hin Hon). reflexivity.
Qed.

(** find-references on the identifier of a declaration: exactly the uses bound to it, in
    every module of the folder, each of which goes back to the declaration *)
Theorem f_references_of_declaration f m idx n :
  In n (fm_nodes (mod_at f m)) -> n_decl n = true -> n_istart n <= idx < n_iend n ->
  (forall n', In n' (fm_nodes (mod_at f m)) -> n_decl n' = true -> n_istart n' <= idx < n_iend n' -> n_id n' = n_id n) ->
  forall i s e, In (i, s, e) (f_references f m idx) <->
    exists fm u, nth_error (f_mods f) i = Some fm /\ In u (uses_of fm) /\ u_def u = Some (n_id n) /\ s = u_istart u /\ e = u_iend u.
Proof.
  intros Hin Hd Hidx Hu i s e. unfold f_references.
  rewrite (f_find_definition_on_declaration f m idx n Hin Hd Hidx Hu). apply f_refs_exact.
Qed.

Theorem f_references_inverse f m idx d md n :
  folder_ok f -> f_find_definition f m idx = Some d -> internal f d = false -> locate f d = Some (md, n) ->
  forall i s e, In (i, s, e) (f_references f m idx) -> f_goto f i s = Some (md, n_start n, n_end n).
Proof.
  intros Hok Hfd Hint Hloc i s e. unfold f_references. rewrite Hfd. apply (f_refs_inverse f d md n Hok Hint Hloc).
Qed.

(** a request away from every identifier finds nothing *)
Theorem f_references_outside f m idx :
  (forall n, In n (fm_nodes (mod_at f m)) -> n_decl n = true -> ~ (n_istart n <= idx < n_iend n)) ->
  (forall v, In v (fm_uses (mod_at f m)) -> on_ident v idx = false) ->
  f_references f m idx = [].
Proof.
  intros Hn Hv. unfold f_references, f_find_definition.
  assert (H : decl_ident_at (fm_nodes (mod_at f m)) idx = None).
  { induction (fm_nodes (mod_at f m)) as [|w ns IH]; [reflexivity|]. cbn [decl_ident_at].
    destruct (n_decl w && contains (n_istart w) (n_iend w) idx) eqn:E.
    - apply andb_true_iff in E. destruct E as [E1 E2]. apply contains_spec in E2.
      exfalso. apply (Hn w); [left; reflexivity|exact E1|exact E2].
    - apply IH. intros n Hin. apply Hn. right. exact Hin. }
  rewrite H.
  assert (H2 : var_ident_at (fm_uses (mod_at f m)) idx = None).
  { induction (fm_uses (mod_at f m)) as [|w vs IH]; [reflexivity|]. cbn [var_ident_at].
    rewrite (Hv w (or_introl eq_refl)). apply IH. intros v Hin. apply Hv. right. exact Hin. }
  rewrite H2. reflexivity.
Qed.

(** rename: the identifier of the definition and exactly the references; a built-in is never renamed *)
Theorem f_rename_external f m idx d i n :
  f_find_definition f m idx = Some d -> internal f d = false -> locate f d = Some (i, n) ->
  f_rename f m idx = (i, n_istart n, n_iend n) :: f_refs f d.
Proof. intros H1 H2 H3. unfold f_rename. rewrite H1, H2, H3. reflexivity. Qed.

Theorem f_rename_builtin f m idx d :
  f_find_definition f m idx = Some d -> internal f d = true -> f_rename f m idx = [].
Proof. intros H1 H2. unfold f_rename. rewrite H1, H2. reflexivity. Qed.

(** the reference edits of one module never overlap *)
Theorem f_refs_disjoint f d i s1 e1 s2 e2 :
  folder_ok f -> In (i, s1, e1) (f_refs f d) -> In (i, s2, e2) (f_refs f d) -> (s1, e1) <> (s2, e2) ->
  e1 <= s2 \/ e2 <= s1.
Proof.
  intros Hok H1 H2 Hne. apply f_refs_exact in H1. apply f_refs_exact in H2.
  destruct H1 as (fm & u & Hn & Hu & Hd & -> & ->). destruct H2 as (fm' & v & Hn' & Hv & Hd' & -> & ->).
  rewrite Hn in Hn'. inversion Hn'; subst fm'.
  pose proof (mod_at_nth_error f i fm Hn) as Hm. pose proof (proj1 (mod_at_ok f i Hok)) as Ho. rewrite Hm in Ho.
  apply (rename_use_edits_disjoint (uses_of fm) d Ho u v); try (apply refs_exact; tauto). congruence.
Qed.

(** the qualifier of an import: its identifier and the first identifier of the variables it qualifies *)
Theorem f_rename_qualifier f m idx q :
  f_find_definition f m idx = None -> qual_at (fm_quals (mod_at f m)) idx = Some q ->
  forall i s e, In (i, s, e) (f_rename f m idx) <->
    (i = m /\ s = q_start q /\ e = q_end q) \/
    (i = m /\ exists v x, In v (fm_uses (mod_at f m)) /\ v_q v = Some (s, e, x) /\ x = q_name q).
Proof.
  intros H1 H2 i s e. unfold f_rename. rewrite H1, H2. cbn [In]. rewrite in_map_iff. unfold qual_uses. split.
  - intros [H|((s' & e') & Heq & Hin)].
    + inversion H; subst. left. auto.
    + inversion Heq; subst. cbn [fst snd] in *. right. split; [reflexivity|].
      apply in_flat_map in Hin. destruct Hin as (v & Hv & Hin). destruct (v_q v) as [[[s0 e0] x]|] eqn:Eq; [|destruct Hin].
      destruct (N.eqb_spec x (q_name q)) as [->|]; [|destruct Hin]. destruct Hin as [Hin|[]]. inversion Hin; subst.
      exists v, (q_name q). auto.
  - intros [(-> & -> & ->)|(-> & v & x & Hv & Eq & ->)]; [left; reflexivity|right].
    exists (s, e). split; [reflexivity|]. apply in_flat_map. exists v. split; [exact Hv|]. rewrite Eq, N.eqb_refl. left. reflexivity.
Qed.

(** prepare_rename announces a range that the rename then edits *)
Lemma decl_ident_span_at_spec ns idx s e :
  decl_ident_span_at ns idx = Some (s, e) ->
  exists n, In n ns /\ n_decl n = true /\ n_istart n <= idx < n_iend n /\ s = n_istart n /\ e = n_iend n /\ decl_ident_at ns idx = Some (n_id n).
Proof.
  induction ns as [|w ns IH]; cbn [decl_ident_span_at decl_ident_at]; [discriminate|].
  destruct (n_decl w && contains (n_istart w) (n_iend w) idx) eqn:E.
  - intros H. inversion H; subst. apply andb_true_iff in E. destruct E as [E1 E2]. apply contains_spec in E2.
    exists w. repeat split; auto; try lia. left. reflexivity.
  - intros H. destruct (IH H) as (n & Hin & Hrest). exists n. split; [right; exact Hin|exact Hrest].
Qed.

Theorem f_prepare_on_declaration f m idx s e :
  decl_ident_span_at (fm_nodes (mod_at f m)) idx = Some (s, e) ->
  f_prepare f m idx = Some (s, e) /\
  exists n, In n (fm_nodes (mod_at f m)) /\ n_decl n = true /\ s = n_istart n /\ e = n_iend n /\ f_find_definition f m idx = Some (n_id n).
Proof.
  intros H. split; [unfold f_prepare; rewrite H; reflexivity|].
  destruct (decl_ident_span_at_spec _ _ _ _ H) as (n & Hin & Hd & _ & Hs & He & Hdef).
  exists n. repeat split; try assumption. unfold f_find_definition. rewrite Hdef. reflexivity.
Qed.

(** on a declaration whose identifier is the cursor's, with definition identifiers unique in the
    folder ([locate] finds the node itself): the announced range is the first edit of the rename *)
Theorem f_prepare_rename_declaration f m idx s e n :
  decl_ident_span_at (fm_nodes (mod_at f m)) idx = Some (s, e) ->
  f_find_definition f m idx = Some (n_id n) -> internal f (n_id n) = false ->
  locate f (n_id n) = Some (m, n) -> s = n_istart n -> e = n_iend n ->
  exists rest, f_rename f m idx = (m, s, e) :: rest.
Proof.
  intros _ Hd Hi Hl -> ->. exists (f_refs f (n_id n)). apply f_rename_external; assumption.
Qed.

(** on a variable (either identifier) bound to an external definition: the announced range is the
    variable's last identifier, one of the reference edits *)
Theorem f_prepare_rename_variable f m idx v d i n fm :
  folder_ok f -> nth_error (f_mods f) m = Some fm ->
  decl_ident_span_at (fm_nodes fm) idx = None -> qual_at (fm_quals fm) idx = None ->
  In v (fm_uses fm) -> on_ident v idx = true ->
  (forall x, In x (fm_nodes fm) -> n_decl x = true -> ~ (n_istart x <= idx < n_iend x)) ->
  u_def (v_use v) = Some d -> internal f d = false -> locate f d = Some (i, n) ->
  f_prepare f m idx = Some (u_istart (v_use v), u_iend (v_use v)) /\
  In (m, u_istart (v_use v), u_iend (v_use v)) (f_rename f m idx).
Proof.
  intros Hok Hn Hnd Hnq Hin Hon Hno Hd Hi Hl.
  pose proof (mod_at_nth_error f m fm Hn) as Hm.
  assert (Hvar : var_ident_at (fm_uses fm) idx = Some v).
  { destruct (mod_at_ok f m Hok) as [Ho Hq]. rewrite Hm in Ho, Hq. apply (var_ident_at_inside _ Ho Hq v idx Hin Hon). }
  split.
  - unfold f_prepare. rewrite Hm, Hnd, Hnq, Hvar. reflexivity.
  - assert (Hfd : f_find_definition f m idx = Some d).
    { rewrite <- Hd. apply (f_find_definition_on_variable f m idx v Hok); try rewrite Hm; assumption. }
    rewrite (f_rename_external f m idx d i n Hfd Hi Hl). right. apply f_refs_exact.
    exists fm, (v_use v). repeat split; try assumption. unfold uses_of. apply in_map. exact Hin.
Qed.

(** a concrete folder of two modules: a qualified use in the first module bound to a
    declaration of the second; the hypotheses of the theorems hold and the answers are computed *)
Definition ex_folder : folder :=
  mk_folder
    [ mk_fmod [ mk_vuse (mk_use 40 46 42 46 (Some 7)) (Some (40, 41, 3)); mk_vuse (mk_use 50 56 50 56 (Some 99)) None ]
              [ mk_dnode 5 20 60 24 25 true ] [ mk_qdef 15 16 3 ];
      mk_fmod [ mk_vuse (mk_use 30 34 30 34 (Some 7)) None ] [ mk_dnode 7 0 15 4 8 true; mk_dnode 8 10 11 10 11 false ] [] ]
    [99].
Example ex_folder_ok : folder_ok ex_folder.
Proof. repeat constructor; cbn; lia. Qed.
Example ex_folder_answers :
  f_goto ex_folder 0 43 = Some (1%nat, 0, 15) /\ f_goto ex_folder 0 52 = None /\
  f_references ex_folder 1 5 = [(0%nat, 42, 46); (1%nat, 30, 34)] /\
  f_rename ex_folder 0 44 = [(1%nat, 4, 8); (0%nat, 42, 46); (1%nat, 30, 34)] /\
  f_rename ex_folder 0 15 = [(0%nat, 15, 16); (0%nat, 40, 41)] /\ f_rename ex_folder 0 52 = [] /\
  f_prepare ex_folder 0 40 = Some (42, 46) /\ f_prepare ex_folder 0 15 = Some (15, 16) /\ f_prepare ex_folder 1 5 = Some (4, 8) /\
  f_prepare ex_folder 1 10 = None.
Proof. vm_compute. repeat split. Qed.
