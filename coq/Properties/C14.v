(** Property C14 — a base description is preserved; only paths and schema components
    are replaced. Statements only; proofs in Proofs/MergeProofs.v. Universal in the base
    document, the default base, and the generated paths/schemas. *)
From Oal Require Import Merge MergeProofs.

Theorem C14_frame_top : forall db p s b k,
  k <> K_PATHS -> k <> K_COMPONENTS ->
  get k (into_openapi db p s (Some b)) = get k b.
Proof. exact frame_top. Qed.
Print Assumptions C14_frame_top.

Theorem C14_frame_components : forall db p s b k,
  k <> K_SCHEMAS ->
  get k (components_of (into_openapi db p s (Some b))) = get k (components_of b).
Proof. exact frame_components. Qed.
Print Assumptions C14_frame_components.

Theorem C14_paths_from_program : forall db p s b,
  get K_PATHS (into_openapi db p s b) = Some (Opaque p).
Proof. exact paths_from_program. Qed.
Print Assumptions C14_paths_from_program.

Theorem C14_schemas_from_program : forall db p s b,
  get K_SCHEMAS (components_of (into_openapi db p s b)) = s.
Proof. exact schemas_from_program. Qed.
Print Assumptions C14_schemas_from_program.

Theorem C14_base_independent : forall db p s b,
  get K_PATHS (into_openapi db p s (Some b)) = get K_PATHS (into_openapi db p s None) /\
  get K_SCHEMAS (components_of (into_openapi db p s (Some b))) =
  get K_SCHEMAS (components_of (into_openapi db p s None)).
Proof. exact base_independent. Qed.
Print Assumptions C14_base_independent.

Theorem C14_replace_components_breaks_frame : exists b k, k <> K_SCHEMAS /\
  get k (components_of (into_openapi_replace 0 0 b)) <> get k (components_of b).
Proof. exact replace_components_breaks_frame. Qed.
Print Assumptions C14_replace_components_breaks_frame.
