"""C06 — compilation is deterministic: same sources, byte-identical document.
Proof: coq/Properties/C06.v (oracle model). Tie: unordered-collection / hidden-state
inventory of the current source against the committed baseline. Monitor O06: byte equality
of the YAML across fresh processes (fresh RandomState), repeated in-process compilations
and compilations preceded by other programs."""
import json
import os
import time
from . import core, progs, inventory, lspws


def yaml_of(r):
    return r.get("yaml") if r.get("status") == "ok" else json.dumps({k: r.get(k) for k in ("status", "phase", "kind", "span")})


def cli_target_history(ctx, ps):
    """the document oal-cli leaves in the target does not depend on what an earlier run left there: the same sources compiled
    to a fresh target, to a target holding a longer document, to a target holding a shorter one, and twice in a row"""
    import subprocess
    ok, out = core.ensure_repo_bins()
    if not ok:
        ctx.broken.append("build of the binaries of /repo failed: " + out[-300:])
        return
    singles = [p for p in ps if len(p["mods"]) == 1][: (12 if ctx.thorough else 3)]
    big = "".join("res /r%d on get -> <{ 'p%d num, 'q str }> :: <status=404, { 'why str }>;\n" % (i, i) for i in range(12))
    small = "res / on get -> <>;\n"
    for k, p in enumerate(singles):
        src = p["mods"][p["main"]]
        root = lspws.fresh_dir("c06_cli_%d" % k)

        def run(text, target):
            with open(os.path.join(root, "m.oal"), "w") as f:
                f.write(text)
            r = subprocess.run([core.CLI, "-m", "m.oal", "-t", target], cwd=root, capture_output=True, timeout=60)
            try:
                return r.returncode, open(os.path.join(root, target), "rb").read()
            except OSError:
                return r.returncode, None
        rc0, fresh = run(src, "fresh.yaml")
        ctx.cov["evaluations"] += 1
        if rc0 != 0 or fresh is None:
            continue
        run(big, "after_long.yaml")
        run(small, "after_short.yaml")
        outs = {"after a longer document": run(src, "after_long.yaml")[1], "after a shorter document": run(src, "after_short.yaml")[1],
                "over its own output": run(src, "fresh.yaml")[1]}
        ctx.cov["evaluations"] += 5
        for what, got in outs.items():
            if got != fresh:
                ctx.violation("the same sources leave a different document in the target depending on what an earlier run left there (%s)" % what,
                              {"program": progs.source_of(p), "target_history": what}, "%d bytes" % len(fresh), "%s bytes" % (len(got) if got is not None else None))
                return
        ctx.count("cli_target_history_same")
    # the sources are the main module, the modules it imports and the base: a target left by a run on earlier versions of
    # an imported module (or of the base) is newer than the main module and must still be rewritten
    root = lspws.fresh_dir("c06_cli_imports")
    main = 'use "lib.oal" as l;\nres /pets on get -> <l.@pet>;\n'
    lib1, lib2 = "let @pet = { 'name str };\n", "let @pet = { 'name str, 'age int };\n"
    base1 = '{"openapi": "3.0.3", "info": {"title": "one", "version": "1"}, "paths": {}}'
    base2 = '{"openapi": "3.0.3", "info": {"title": "two", "version": "2"}, "paths": {}}'

    def put(name, text):
        with open(os.path.join(root, name), "w") as f:
            f.write(text)

    def cli(target, base=None):
        r = subprocess.run([core.CLI, "-m", "main.oal", "-t", target] + (["-b", base] if base else []), cwd=root, capture_output=True, timeout=60)
        try:
            return r.returncode, open(os.path.join(root, target), "rb").read()
        except OSError:
            return r.returncode, None
    put("main.oal", main)
    put("lib.oal", lib1)
    put("base.yaml", base1)
    time.sleep(0.05)
    cli("api.yaml", "base.yaml")                   # the earlier run: api.yaml is now newer than main.oal
    time.sleep(0.05)
    for what, name, text in (("an imported module", "lib.oal", lib2), ("the base description", "base.yaml", base2)):
        put(name, text)
        rc1, reused = cli("api.yaml", "base.yaml")
        rc2, fresh = cli("fresh_%s" % name.replace(".", "_"), "base.yaml")
        ctx.cov["evaluations"] += 2
        if rc1 != 0 or rc2 != 0:
            ctx.broken.append("oal-cli fails on the two-module program of the target-history stage")
            return
        if reused != fresh:
            ctx.violation("the same sources leave a different document in the target depending on what an earlier run left there (the target was "
                          "written before %s changed)" % what, {"program": {"mods": {"main.oal": main, "lib.oal": text if name == "lib.oal" else lib2},
                                                                               "main": "main.oal"}, "target_history": "changed " + name},
                          "%d bytes" % len(fresh or b""), "%d bytes" % len(reused or b""))
            return
        ctx.count("cli_target_history_same")


def check(ctx):
    ctx.proof = core.proof_stage("C06", thorough=ctx.thorough)
    ok, out = core.ensure_harness()
    if not ok:
        ctx.broken.append("harness build against /repo failed: " + out[-600:])
        return core.finish(ctx)
    diffs = inventory.compare("unordered", inventory.unordered_inventory())
    for d in diffs:
        ctx.broken.append("inventory of unordered collections / hidden state changed: " + d)
    if ctx.replay:
        v = json.load(open(ctx.replay))
        ps = [dict(v["input"]["program"], features=[], ast=None)]
    else:
        n = 3600 if ctx.thorough else 260
        ps = progs.gen_programs(ctx, n)
        corpus = [
            'res / on get -> <{}> `examples: { a: "a.json", b: "b.json", c: "c.json", d: "d.json", e: "e.json" }`;\n',
            '# tags: [pets, read]\nlet o = get -> <>;\nres /a on o `tags: [read, public, beta, v2]`;\n',
            'let s = str `enum: [x, y, z]`;\nres /e on get -> <{ \'k s `enum: [y, w, x]` }>;\n',
            "let tree t = rec x { 'v t, 'kids [x] };\nres /ints on get -> <tree int>;\nres /strs on get -> <tree str>;\n",
            'let @a = { \'p num } `examples: { one: "1.json", two: "2.json", three: "3.json" }`;\nres /r on get -> <@a>;\n',
            # several not yet evaluated references passed to one function: the order in which arguments are evaluated reaches
            # the order of the components and the names of the implicit ones
            "let quad a b c d = { 'a a, 'b b, 'c c, 'd d };\nlet @first = { 'k num };\nlet @second = { 'k str };\nlet @third = { 'k bool };\nlet @fourth = { 'k int };\n"
            "res /quads on get -> <quad @first @second @third @fourth>;\n",
            "let five a b c d e = [a ~ b ~ c ~ d ~ e];\nres /recs on get -> <five (rec p { 'p [p] }) (rec q { 'q [q] }) (rec r { 'r [r] }) (rec s { 's [s] }) (rec t { 't [t] })>;\n",
            "let pair x y = { 'l x, 'r y };\nlet @m = { 'm num };\nlet @n = { 'n num };\nlet @o = { 'o num };\nres /p on get -> <pair (pair @m @n) (pair @o (rec z [z]))>;\n",
            # formats whose natural sample values come from the clock, the host or a random source
            'let @event = { \'created! str `format: date-time`, \'day str `format: date`, \'at str `format: time`, \'id str `format: uuid`,\n'
            '  \'host str `format: hostname`, \'ip str `format: ipv4`, \'secret str `format: password`, \'n int `format: int64` };\n'
            'res /events on get -> <status=200, [@event]>;\n',
            'res /e/{ \'id str `format: uuid` }?{ \'since str `format: date-time` } on get -> <headers={ \'Date str `format: date-time` }, uri>;\n',
        ]
        ncorpus = len(corpus)
        # several unqualified imports exporting one name (K9: the later use wins): which one wins is the same in every process
        twins = {"file:///w/%s.oal" % n: "let item = { 'from_%s! str };\nlet only_%s = num;\n" % (n, n) for n in "abcdef"}
        twins["file:///w/main.oal"] = "".join('use "%s.oal";\n' % n for n in "abcdef") + "res /items on get -> <status=200, item>;\n"
        ps.insert(0, {"mods": twins, "main": "file:///w/main.oal", "features": ["corpus"], "ast": None})
        ncorpus += 1
        ps += progs.shared_corpus()
        for s in corpus:
            ps.insert(0, {"mods": {"file:///w/main.oal": s}, "main": "file:///w/main.oal", "features": ["corpus"], "ast": None})
    progs.feature_stats(ctx, ps)
    if not ctx.replay:
        # C06_evaluation_has_one_result is a theorem about Model/Eval.v: the evaluator tie (and its stratification hypothesis)
        from . import evaltie
        evaltie.run(ctx, ps[: (1500 if ctx.thorough else 100)])
    t_a = time.time()
    # run A: each program three times in process, programs interleaved in one process per shard
    a = progs.compile_many([dict(p, repeat=3) for p in ps])
    # run B..: fresh processes, different shard composition (reversed order => different history)
    runs = [a]
    for k in range(3 if ctx.thorough else 2):
        order = list(reversed(range(len(ps)))) if k % 2 == 0 else list(range(len(ps)))
        res = progs.compile_many([ps[i] for i in order])
        back = [None] * len(ps)
        for pos, i in enumerate(order):
            back[i] = res[pos]
        runs.append(back)
    # a handful of programs alone in brand-new processes
    # ... later (more than a second after run A), from another directory and with another environment
    solo_idx = sorted(set(range(0, len(ps), max(1, len(ps) // (180 if ctx.thorough else 24)))) | set(range(min(len(ps), 0 if ctx.replay else ncorpus))))
    time.sleep(max(0.0, 1.3 - (time.time() - t_a)))
    core.PROC_CWD = lspws.fresh_dir("c06_cwd")
    core.PROC_ENV = dict(os.environ, TZ="Pacific/Kiritimati", LANG="tr_TR.UTF-8", LC_ALL="C", HOME="/nonexistent", USER="nobody",
                         HOSTNAME="elsewhere", RUST_BACKTRACE="0", OAL_SEED=str(ctx.rng.random()))
    try:
        solos = {i: progs.compile_many([ps[i]])[0] for i in solo_idx}
        # ... and from a directory that is an ancestor of the sources' location (the modules live under /w)
        core.PROC_CWD = "/"
        solos_root = {i: progs.compile_many([ps[i]])[0] for i in solo_idx}
    finally:
        core.PROC_CWD = core.PROC_ENV = None
    seen = set()
    for i, p in enumerate(ps):
        ctx.cov["evaluations"] += len(runs) + 2 + (1 if i in solos else 0)
        inp = {"program": progs.source_of(p)}
        r0 = runs[0][i]
        if r0.get("status") == "crash":
            ctx.count("crash")
            continue
        if r0.get("repeat_same") is False:
            ctx.violation("repeated compilation in one process gives a different document", inp, r0.get("yaml"), r0.get("yaml_other"))
            continue
        y0 = yaml_of(r0)
        for k, run in enumerate(runs[1:]):
            if yaml_of(run[i]) != y0:
                ctx.violation("the same sources give a different document in another process / after another compilation history",
                              inp, y0, yaml_of(run[i]))
                break
        else:
            if i in solos and yaml_of(solos[i]) != y0:
                ctx.violation("the same sources give a different document in a fresh process", inp, y0, yaml_of(solos[i]))
            elif i in solos_root and yaml_of(solos_root[i]) != y0:
                ctx.violation("the same sources at the same location give a different document in a process started from another working directory "
                              "(an ancestor of the sources' directory)", inp, y0, yaml_of(solos_root[i]))
        key = json.dumps(p["mods"], sort_keys=True)
        if key not in seen and r0.get("status") == "ok":
            seen.add(key)
            if "hash-" in (r0.get("yaml") or "") or "examples" in (r0.get("yaml") or "") or "tags" in (r0.get("yaml") or ""):
                ctx.count("nontrivial")
        if i in (0, 3, 40):
            ctx.sample({"program": p["mods"][p["main"]][:300], "yaml_bytes": len(r0.get("yaml") or "")})
    if not ctx.replay or (ctx.replay and "target_history" in json.load(open(ctx.replay)).get("input", {})):
        cli_target_history(ctx, ps)
    ctx.cov["distinct_nontrivial"] = ctx.cov["distribution"].get("nontrivial", 0)
    ctx.cov["inventory"] = inventory.unordered_inventory()
    ctx.cov["rule"] = ("generated programs + corpus (examples maps, composed tags/enum sequences, rec inside applied functions); each compiled 3x in one process, "
                       "then in 2-3 further processes with a different compilation history, a sample (and the whole corpus, with clock/host/random-flavoured formats) alone in fresh processes started more than a second later from another working directory with another environment (TZ, locale, HOME, USER), and once more from `/`, an ancestor of the sources' location; YAML compared byte for byte. "
                       "distinct_nontrivial = distinct accepted programs whose document contains implicit component names, examples or tags")
    ctx.assumptions = ["process-level entropy (hash seeds, address space) is sampled by fresh processes, not enumerated",
                       "the inventory lists every HashMap/HashSet mention and every hidden-state primitive in the compile path; all present ones are lookup-only"]
    return core.finish(ctx)
