(** Property C01 — accepted programs never go wrong.

    Full statement (kept visible, not proved): [accepted ms -> exists n r, run n ms = Done r],
    for the whole evaluator. It is false on the pinned tree: K1, K2, K10, K11, K12, K16.

    Proved here (partial): the cast table. Every panic site of the evaluator is a cast of an
    evaluated value; for every cast site, every resolved tag that passes the site's guard and
    every value form (references nested to any depth) the tag admits, the cast accepts the
    form — except the known triples, keyed by (cast site, offending form), each refuted by a
    witness.

    Proved here on the evaluator model (Model/Eval.v, tied to eval.rs on every run) and the
    typing discipline (Model/Typing.v: the equations of inference and the kind checks of
    type_check for variable-free tags, validated against the tags the real inference leaves on
    every accepted program): type soundness. A program that passes the discipline never
    reaches any panic of the evaluator other than those of cast_content, cast_object,
    cast_uri and cast_relation ([C01_typed_programs_panic_only_at_known_casts]): no cast_schema,
    cast_ranges, cast_string, cast_property, cast_http_status, cast_transfer or cast_lambda
    panic, no missing binding or declaration, no concat arity / Uri::append panic, for any
    fuel. Each of the four remaining casts does panic on a well-typed program (K1, K11, K12:
    witnesses below), and the consistency of @names is needed (K21, found while stating the
    invariant of this proof). Termination: for a stratified first-order program (Model/Strat.v:
    the uses among declarations that are not memoised in the reference table are well
    founded -- what the recursion check guarantees, re-checked by the tie on every accepted
    program) an explicit amount of fuel suffices ([C01_stratified_programs_terminate]); hence
    a well-typed stratified program evaluates, for all large enough fuel, to a document, a
    located error or one of the four known cast panics ([C01_accepted_programs_evaluate]).
    Not proved: programs whose declarations in use keep a tag variable (K2), programs that
    apply a function through an alias or a parameter (not first order). *)
From Oal Require Import Tag Cast CastProofs.
From Oal Require Eval Typing TypingProofs EvalProofs Strat TermProofs ClosureProofs Cycles CyclesProofs RankProofs RecursionLink.

Theorem C01_cast_table_exact_partial : forall s t k,
  resolved t = true -> check s t = true -> admits t k = true ->
  cast_ok s k = true \/ known s k = true.
Proof. exact cast_table_exact. Qed.
Print Assumptions C01_cast_table_exact_partial.

Theorem C01_cast_never_panics_partial : forall s t k,
  resolved t = true -> check s t = true -> admits t k = true -> known s k = false -> cast_ok s k = true.
Proof. exact cast_never_panics. Qed.
Print Assumptions C01_cast_never_panics_partial.

Theorem C01_K1_ranges_in_domain_refuted :
  check SDomain (TBase BContent) = true /\ admits (TBase BContent) FRanges = true /\ cast_ok SDomain FRanges = false.
Proof. exact K1_ranges_in_domain. Qed.
Print Assumptions C01_K1_ranges_in_domain_refuted.

Theorem C01_K11_operation_as_headers_refuted :
  check SHeaders (TBase BObject) = true /\ admits (TBase BObject) FOp = true /\ cast_ok SHeaders FOp = false.
Proof. exact K11_operation_as_headers. Qed.
Print Assumptions C01_K11_operation_as_headers_refuted.

Theorem C01_K10_recursion_as_headers_refuted :
  check SHeaders (TBase BObject) = true /\ admits (TBase BObject) FRecursion = true /\ cast_ok SHeaders FRecursion = false.
Proof. exact K10_recursion_as_headers. Qed.
Print Assumptions C01_K10_recursion_as_headers_refuted.

Theorem C01_K12_operation_as_uri_refuted :
  check SRelUri (TBase BUri) = true /\ admits (TBase BUri) FOp = true /\ cast_ok SRelUri FOp = false.
Proof. exact K12_operation_as_uri. Qed.
Print Assumptions C01_K12_operation_as_uri_refuted.

Theorem C01_K12_operation_as_resource_refuted :
  check SResource (TBase BRelation) = true /\ admits (TBase BRelation) FOp = true /\ cast_ok SResource FOp = false.
Proof. exact K12_operation_as_resource. Qed.
Print Assumptions C01_K12_operation_as_resource_refuted.

(** K16 was found by this proof: the case (res statement, recursion variable) did not close *)
Theorem C01_K16_recursion_as_resource_refuted :
  check SResource (TBase BRelation) = true /\ admits (TBase BRelation) (FRef FRecursion) = true
  /\ cast_ok SResource (FRef FRecursion) = false.
Proof. exact K16_recursion_as_resource. Qed.
Print Assumptions C01_K16_recursion_as_resource_refuted.

Theorem C01_K2_unresolved_passes_guards_refuted : forall v,
  check SBody (TVar v) = true /\ cast_ok SBody FContent = false.
Proof. exact K2_unresolved_passes_guards. Qed.
Print Assumptions C01_K2_unresolved_passes_guards_refuted.

(** non-vacuity: a nested reference to an object at a headers site *)
Example C01_hyps_inhabited :
  resolved (TBase BObject) = true /\ check SHeaders (TBase BObject) = true /\
  admits (TBase BObject) (FRef (FRef FObject)) = true /\ known SHeaders (FRef (FRef FObject)) = false.
Proof. repeat split. Qed.

(** * type soundness of the evaluator *)
Theorem C01_typed_programs_panic_only_at_known_casts : forall E P rs n,
  Typing.wt_progb E P rs = true ->
  match Eval.eval_program false P n rs with
  | Eval.Panic p => p = Eval.P_content \/ p = Eval.P_object \/ p = Eval.P_uri \/ p = Eval.P_relation
  | _ => True
  end.
Proof. exact TypingProofs.typed_programs. Qed.
Print Assumptions C01_typed_programs_panic_only_at_known_casts.

Theorem C01_K1_typed_and_panics_refuted :
  let P : Eval.prog := [[]] in
  let rs := [Eval.ERel (Eval.ETerm [] (Eval.EUri [inl 30%N] None))
               [Eval.EXfer [0%N] (Some (Eval.ETerm [] (Eval.ESub (Eval.EOp 3 [Eval.ECont None []; Eval.ECont None []]))))
                           (Eval.ECont None []) None]] in
  Typing.wt_progb (TypingProofs.w_E []) P rs = true /\ Eval.eval_program false P 50 rs = Eval.Panic Eval.P_content.
Proof. exact TypingProofs.K1_typed_and_panics. Qed.
Print Assumptions C01_K1_typed_and_panics_refuted.

Theorem C01_K11_typed_and_panics_refuted :
  let P : Eval.prog := [[]] in
  let rs := [Eval.ERel (Eval.ETerm [] (Eval.EUri [inl 30%N] None))
               [Eval.EXfer [0%N] None (Eval.ECont None [(1%N, Eval.EOp 0 [Eval.EObj []; Eval.EObj []])]) None]] in
  Typing.wt_progb (TypingProofs.w_E []) P rs = true /\ Eval.eval_program false P 50 rs = Eval.Panic Eval.P_object.
Proof. exact TypingProofs.K11_typed_and_panics. Qed.
Print Assumptions C01_K11_typed_and_panics_refuted.

Theorem C01_K12_typed_and_panics_uri_refuted :
  let P : Eval.prog := [[]] in
  let rs := [Eval.ERel (Eval.ETerm [] (Eval.ESub (Eval.EOp 2 [Eval.EUri [inl 30%N] None; Eval.EUri [inl 31%N] None]))) []] in
  Typing.wt_progb (TypingProofs.w_E []) P rs = true /\ Eval.eval_program false P 50 rs = Eval.Panic Eval.P_uri.
Proof. exact TypingProofs.K12_typed_and_panics_uri. Qed.
Print Assumptions C01_K12_typed_and_panics_uri_refuted.

Theorem C01_K12_typed_and_panics_relation_refuted :
  let P : Eval.prog := [[]] in
  let rs := [Eval.ESub (Eval.EOp 2 [Eval.EUri [inl 30%N] None; Eval.EUri [inl 31%N] None])] in
  Typing.wt_progb (TypingProofs.w_E []) P rs = true /\ Eval.eval_program false P 50 rs = Eval.Panic Eval.P_relation.
Proof. exact TypingProofs.K12_typed_and_panics_relation. Qed.
Print Assumptions C01_K12_typed_and_panics_relation_refuted.

(** K21: the same @name with two kinds; rejected by the checker, panics in the code *)
Theorem C01_K21_conflated_reference_refuted :
  let P : Eval.prog := [[Eval.mk_decl (Some 40%N) false [] [] (Eval.EPrim 2)]; [Eval.mk_decl (Some 40%N) false [] [] (Eval.EObj [])]] in
  let E := Typing.mk_tenv [[Typing.T BPrimitive]; [Typing.T BObject]] [] in
  let rs := [Eval.ERel (Eval.ETerm [] (Eval.EUri [inl 30%N] None))
               [Eval.EXfer [0%N] None (Eval.ECont (Some (Eval.EDecl 0 0)) [(1%N, Eval.EDecl 1 0)]) None]] in
  Typing.wt_progb E P rs = false /\ Typing.named_okb (Typing.named P E) = false /\
  Eval.eval_program false P 50 rs = Eval.Panic Eval.P_object.
Proof. exact TypingProofs.K21_conflated_reference. Qed.
Print Assumptions C01_K21_conflated_reference_refuted.

Example C01_well_typed_program_evaluates :
  let E := Typing.mk_tenv [[TFunc [Typing.T BPrimitive] (Typing.T BObject); TFunc [Typing.T BPrimitive] (Typing.T BObject)]] [] in
  Typing.wt_progb E EvalProofs.ex_P EvalProofs.ex_rs = true /\
  exists r, Eval.eval_program false EvalProofs.ex_P 50 EvalProofs.ex_rs = Eval.Ok r.
Proof. exact TypingProofs.ex_well_typed. Qed.

(** * termination and the capstone *)
Theorem C01_stratified_programs_terminate : forall P rs,
  Strat.stratified P rs = true -> exists N, forall n, N <= n -> Eval.eval_program false P n rs <> Eval.Fuel.
Proof. exact TermProofs.stratified_terminates. Qed.
Print Assumptions C01_stratified_programs_terminate.

Theorem C01_accepted_programs_evaluate : forall E P rs,
  Typing.wt_progb E P rs = true -> Strat.stratified P rs = true ->
  exists N, forall n, N <= n ->
    match Eval.eval_program false P n rs with
    | Eval.Ok _ | Eval.Err _ => True
    | Eval.Panic p => p = Eval.P_content \/ p = Eval.P_object \/ p = Eval.P_uri \/ p = Eval.P_relation
    | Eval.Fuel => False
    end.
Proof. exact TermProofs.accepted_programs_evaluate. Qed.
Print Assumptions C01_accepted_programs_evaluate.

(** the hypothesis is needed: `let f x = f x;` is not stratified (the recursion check rejects it)
    and exhausts any fuel *)
Theorem C01_unstratified_program_loops_refuted :
  Strat.stratified TermProofs.ex_loop TermProofs.ex_loop_rs = false /\
  Eval.eval_program false TermProofs.ex_loop 200 TermProofs.ex_loop_rs = Eval.Fuel.
Proof. exact TermProofs.ex_loop_not_stratified. Qed.
Print Assumptions C01_unstratified_program_loops_refuted.

Example C01_recursive_program_is_stratified : Strat.stratified ClosureProofs.ex_rec_P ClosureProofs.ex_rec_rs = true.
Proof. exact TermProofs.ex_rec_stratified. Qed.

(** the same with the hypothesis of stratification replaced by what the recursion check establishes:
    acceptance by the check of a graph that has an edge for every use and whose flags are the
    evaluator's memoised declarations, and first-order bodies *)
Theorem C01_accepted_by_the_recursion_check_evaluate : forall P referential scc, CyclesProofs.scc_spec scc ->
  forall (nu : N -> N -> N) ns g marks,
  (forall x y, RankProofs.edge P x y -> In (nu (fst x) (snd x), nu (fst y) (snd y)) g) ->
  (forall m i, In (nu m i) marks -> Strat.cutb P m i = true) ->
  Cycles.cycles_check referential scc (S (length g)) ns g [] = Cycles.COk marks ->
  forall E rs, Typing.wt_progb E P rs = true ->
  (forall m i d, Eval.get_decl P m i = Some d -> Strat.fo P (Eval.d_rhs d) = true) -> (forall r, In r rs -> Strat.fo P r = true) ->
  exists N, forall n, N <= n ->
    match Eval.eval_program false P n rs with
    | Eval.Ok _ | Eval.Err _ => True
    | Eval.Panic p => TypingProofs.allowed p
    | Eval.Fuel => False
    end.
Proof. exact RecursionLink.accepted_well_typed_programs_evaluate. Qed.
Print Assumptions C01_accepted_by_the_recursion_check_evaluate.
