(** The cast table of the evaluator (oal-compiler/src/eval.rs, stdlib.rs) against the kind
    checks of typecheck.rs.

    A tag says what an expression is a schema / content / ... *of*; a cast demands a literal
    *form* of the evaluated value. [form] lists the constructors of eval::Expr that matter
    ([FRef k] is [Expr::Reference(_, v)] with [v] of form [k]); [admits T k] says that an
    expression whose inferred tag is [T] can evaluate to a value of form [k]; [check s T] is
    the kind check guarding cast site [s]; [cast_ok s k] says the cast at [s] accepts [k]. *)
From Oal Require Export Tag.

Inductive form :=
| FUri | FRelation | FTransfer | FContent | FObject | FRanges | FProperty | FPrim
| FOp                (* Expr::VariadicOp: a join / sum / any operation *)
| FArray | FString | FNumber | FStatus | FLambda
| FRecursion         (* Expr::Recursion: the variable of an enclosing recursion *)
| FRef (k : form).

(** the cast sites *)
Inductive site :=
| SDomain            (* transfer domain: cast_content *)
| SRange             (* transfer range: cast_ranges *)
| SRelUri            (* relation uri: cast_uri *)
| SRelXfer           (* relation transfers: cast_transfer *)
| SResource          (* res statement: cast_relation *)
| SUriVar            (* uri template variable: cast_property *)
| SBody              (* content body: cast_schema *)
| SMedia             (* media=: cast_string *)
| SHeaders           (* headers=: cast_object *)
| SStatus            (* status=: cast_http_status *)
| SObjProp           (* object member: cast_property *)
| SOperand           (* operand of & | ~: cast_schema *)
| SRangeOperand      (* operand of :: : cast_ranges *)
| SUnary             (* operand of ! ?: cast_property *)
| SPropRhs           (* property right-hand side, array item: cast_schema *)
| SLambda            (* applied identifier: cast_lambda *)
| SConcatArg         (* argument of concat: cast_uri *)
| SRefTable.         (* reference table at the end of eval_program: cast_schema *)

(** eval::Expr::is_schema_like *)
Definition schema_like (k : form) : bool :=
  match k with
  | FObject | FPrim | FArray | FUri | FOp | FRef _ | FRelation | FRecursion => true
  | _ => false
  end.

Definition content_like (k : form) : bool :=
  match k with FContent => true | _ => schema_like k end.

(** the cast_* functions: does the cast return (true) or panic (false)? *)
Definition cast_schema_ok (k : form) : bool := schema_like k.

Definition cast_content_ok (k : form) : bool :=
  match k with
  | FContent => true
  | FRef _ => true                       (* schema-like: Content::from(cast_schema(..)) *)
  | _ => schema_like k
  end.

Definition cast_ranges_ok (k : form) : bool :=
  match k with
  | FRanges => true
  | _ => content_like k                   (* a Reference is content-like, handled there *)
  end.

Fixpoint cast_string_ok (k : form) : bool :=
  match k with FString => true | FRef v => cast_string_ok v | _ => false end.
Fixpoint cast_property_ok (k : form) : bool :=
  match k with FProperty => true | FRef v => cast_property_ok v | _ => false end.
Fixpoint cast_status_ok (k : form) : bool :=
  match k with FStatus | FNumber => true | FRef v => cast_status_ok v | _ => false end.
Fixpoint cast_object_ok (k : form) : bool :=
  match k with FObject => true | FRef v => cast_object_ok v | _ => false end.
Fixpoint cast_transfer_ok (k : form) : bool :=
  match k with FTransfer => true | FRef v => cast_transfer_ok v | _ => false end.
Fixpoint cast_uri_ok (k : form) : bool :=
  match k with FUri | FRelation => true | FRef v => cast_uri_ok v | _ => false end.
Fixpoint cast_relation_ok (k : form) : bool :=
  match k with FRelation | FUri => true | FRef v => cast_relation_ok v | _ => false end.
Fixpoint cast_lambda_ok (k : form) : bool :=
  match k with FLambda => true | FRef v => cast_lambda_ok v | _ => false end.

Definition cast_ok (s : site) (k : form) : bool :=
  match s with
  | SDomain => cast_content_ok k
  | SRange | SRangeOperand => cast_ranges_ok k
  | SRelUri | SConcatArg => cast_uri_ok k
  | SRelXfer => cast_transfer_ok k
  | SResource => cast_relation_ok k
  | SUriVar | SObjProp | SUnary => cast_property_ok k
  | SBody | SOperand | SPropRhs | SRefTable => cast_schema_ok k
  | SMedia => cast_string_ok k
  | SHeaders => cast_object_ok k
  | SStatus => cast_status_ok k
  | SLambda => cast_lambda_ok k
  end.

(** typecheck.rs TagWrap predicates, on fully substituted tags *)
Definition is_var (t : tag) : bool := match t with TVar _ => true | _ => false end.
Definition is_schema (t : tag) : bool :=
  match t with
  | TBase BPrimitive | TBase BRelation | TBase BObject | TBase BArray | TBase BUri | TBase BAny | TVar _ => true
  | _ => false
  end.
Definition is_content_like (t : tag) : bool :=
  is_schema t || match t with TBase BContent => true | _ => false end.

(** the check (kind check or inference equation) that guards each cast site *)
Definition check (s : site) (t : tag) : bool :=
  match s with
  | SDomain | SRange | SRangeOperand => is_content_like t
  | SRelUri => match t with TBase BUri | TVar _ => true | _ => false end
  | SConcatArg => match t with TBase BUri => true | _ => false end        (* by unification with concat's tag *)
  | SRelXfer => match t with TBase BTransfer | TVar _ => true | _ => false end
  | SResource => match t with TBase BRelation | TBase BUri | TVar _ => true | _ => false end
  | SUriVar => match t with TProperty (TBase BPrimitive) | TVar _ => true | _ => false end
  | SBody | SOperand | SPropRhs | SRefTable => is_schema t
  | SMedia => match t with TBase BText | TVar _ => true | _ => false end
  | SHeaders => match t with TBase BObject => true | _ => false end        (* is_schema + equation with Object *)
  | SStatus => match t with TBase BStatus | TBase BNumber | TVar _ => true | _ => false end
  | SObjProp | SUnary => match t with TProperty _ | TVar _ => true | _ => false end
  | SLambda => match t with TFunc _ _ => true | _ => false end
  end.

(** tags whose values may be wrapped in references / be recursion points: schemas *)
Definition referable (t : tag) : bool :=
  match t with
  | TBase BPrimitive | TBase BRelation | TBase BObject | TBase BArray | TBase BUri | TBase BAny => true
  | _ => false
  end.

(** which value forms an expression of (resolved) tag [t] can evaluate to *)
Fixpoint admits (t : tag) (k : form) : bool :=
  match k with
  | FRef v => referable t && admits t v
  | FRecursion => referable t && negb (match t with TBase BUri => true | _ => false end)
  | FOp =>      (* a sum takes the tag of its operands; join is Object; any is Any *)
      match t with TBase BPrimitive | TBase BRelation | TBase BObject | TBase BArray | TBase BUri | TBase BAny => true | _ => false end
  | FPrim => match t with TBase BPrimitive => true | _ => false end
  | FObject => match t with TBase BObject => true | _ => false end
  | FArray => match t with TBase BArray => true | _ => false end
  | FUri => match t with TBase BUri => true | _ => false end
  | FRelation => match t with TBase BRelation => true | _ => false end
  | FContent | FRanges => match t with TBase BContent => true | _ => false end
  | FTransfer => match t with TBase BTransfer => true | _ => false end
  | FProperty => match t with TProperty _ => true | _ => false end
  | FString => match t with TBase BText => true | _ => false end
  | FNumber => match t with TBase BNumber => true | _ => false end
  | FStatus => match t with TBase BStatus => true | _ => false end
  | FLambda => match t with TFunc _ _ => true | _ => false end
  end.

(** innermost form under references *)
Fixpoint core (k : form) : form := match k with FRef v => core v | _ => k end.

(** the known failing triples, keyed by (cast site, offending core form) *)
Definition known (s : site) (k : form) : bool :=
  match s, core k with
  | SDomain, FRanges => true                       (* K1 *)
  | SHeaders, FOp => true                          (* K11 *)
  | SHeaders, FRecursion => true                   (* K10 *)
  | SRelUri, FOp | SConcatArg, FOp | SResource, FOp => true   (* K12 *)
  | SResource, FRecursion => true                  (* K16 *)
  | _, _ => false
  end.
