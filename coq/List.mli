open Datatypes

val firstn : nat -> 'a1 list -> 'a1 list

val skipn : nat -> 'a1 list -> 'a1 list
