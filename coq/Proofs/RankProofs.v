(** The ranks [Strat.stratified] computes by relaxation are a witness whenever one exists: if no
    cycle of uses runs through declarations that are not cut (every cycle passes through a
    declaration the evaluator memoises, which is what the recursion check establishes:
    CyclesProofs.flagged_cut_every_cycle), the relaxation is stable after as many rounds as
    there are declarations and the stable table satisfies the rank condition of
    [Strat.strat_okb]. With first-order bodies this is exactly [stratified]. *)
From Oal Require Import Eval Strat InlineProofs.
From Coq Require Import Lia Arith.
Local Open Scope nat_scope.

(** * the relaxation step as a map *)
Lemma fold_app_map {A B} (f : A -> B) l : forall acc (i : N),
  fst (fold_left (fun '(acc, i) x => (acc ++ [f x], N.succ i)) l (acc, i)) = acc ++ map f l.
Proof.
  induction l as [|x l IH]; intros acc i; cbn [fold_left map]; [rewrite app_nil_r; reflexivity|].
  rewrite IH, <- app_assoc. reflexivity.
Qed.

Section Rank.
  Variable P : prog.

  Definition step_decl (r : N -> N -> nat) (d : decl) : nat := if cutd d then 0 else erank P r (d_rhs d).

  Lemma relax_map rk : relax P rk = map (map (step_decl (rank_of rk))) P.
  Proof.
    unfold relax.
    rewrite (fold_app_map (fun ds => fst (fold_left (fun '(row, i) d => (row ++ [if cutd d then 0 else erank P (rank_of rk) (d_rhs d)], N.succ i)) ds ([], 0%N)))).
    cbn [app]. apply map_ext. intros ds. rewrite (fold_app_map (step_decl (rank_of rk))). reflexivity.
  Qed.

  Definition relaxf (r : N -> N -> nat) (m i : N) : nat :=
    match get_decl P m i with Some d => step_decl r d | None => 0 end.

  Lemma rank_of_relax rk m i : rank_of (relax P rk) m i = relaxf (rank_of rk) m i.
  Proof.
    rewrite relax_map. unfold rank_of, relaxf, get_decl. rewrite nth_error_map.
    destruct (nth_error P (N.to_nat m)) as [ds|]; cbn [option_map]; [|reflexivity].
    destruct (nth_error ds (N.to_nat i)) as [d|] eqn:E.
    - rewrite (nth_indep _ 0 (step_decl (rank_of rk) d)) by (rewrite map_length; apply nth_error_Some; congruence).
      rewrite map_nth. f_equal. apply nth_error_nth, E.
    - apply nth_overflow. rewrite map_length. apply nth_error_None, E.
  Qed.

  Lemma rank_of_zero m i : rank_of (map (map (fun _ : decl => 0)) P) m i = 0.
  Proof.
    unfold rank_of. rewrite nth_error_map. destruct (nth_error P (N.to_nat m)) as [ds|]; cbn [option_map]; [|reflexivity].
    destruct (nth_in_or_default (N.to_nat i) (map (fun _ : decl => 0) ds) 0) as [H|H]; [|exact H].
    apply in_map_iff in H as (x & Hx & _). symmetry. exact Hx.
  Qed.

  Lemma iter_S {A} (f : A -> A) n : forall x, iter (S n) f x = f (iter n f x).
  Proof. induction n as [|n IH]; intros x; [reflexivity|]. cbn [iter] in *. rewrite <- IH. reflexivity. Qed.

  (** the rank functions of the successive tables *)
  Fixpoint rf (k : nat) : N -> N -> nat := match k with O => fun _ _ => 0 | S k' => relaxf (rf k') end.

  Lemma erank_ext r r' e : (forall m i, r m i = r' m i) -> erank P r e = erank P r' e.
  Proof.
    intros H. revert e. fix IH 1. intros e. destruct e; cbn [erank]; try reflexivity; try apply IH.
    - rewrite H. reflexivity.
    - rewrite (IH e). f_equal. induction args as [|x l IHl]; [reflexivity|]. cbn [fold_right]. rewrite (IH x), IHl. reflexivity.
    - induction ps as [|x l IHl]; [reflexivity|]. cbn [fold_right]. rewrite (IH x), IHl. reflexivity.
    - induction es as [|x l IHl]; [reflexivity|]. cbn [fold_right]. rewrite (IH x), IHl. reflexivity.
    - f_equal; [destruct body; [apply IH|reflexivity]|].
      induction metas as [|[k x] l IHl]; [reflexivity|]. cbn [fold_right]. rewrite (IH x), IHl. reflexivity.
    - f_equal; [destruct domain; [apply IH|reflexivity]|]. f_equal; [apply IH|destruct params; [apply IH|reflexivity]].
    - f_equal; [|destruct params; [apply IH|reflexivity]].
      induction segs as [|[x|x] l IHl]; [reflexivity| |]; cbn [fold_right]; rewrite IHl; [reflexivity|rewrite (IH x); reflexivity].
    - rewrite (IH e). f_equal. induction xfers as [|x l IHl]; [reflexivity|]. cbn [fold_right]. rewrite (IH x), IHl. reflexivity.
  Qed.

  Lemma relaxf_ext r r' m i : (forall m i, r m i = r' m i) -> relaxf r m i = relaxf r' m i.
  Proof. intros H. unfold relaxf, step_decl. destruct (get_decl P m i) as [d|]; [|reflexivity]. destruct (cutd d); [reflexivity|]. apply erank_ext, H. Qed.

  Lemma rank_of_iter k : forall m i, rank_of (iter k (relax P) (map (map (fun _ => 0)) P)) m i = rf k m i.
  Proof.
    induction k as [|k IH]; intros m i; [apply rank_of_zero|].
    rewrite iter_S, rank_of_relax. cbn [rf]. apply relaxf_ext, IH.
  Qed.

  (** ** the rank of an expression is the best score of a declaration it mentions *)
  Definition score (r : N -> N -> nat) (m i : N) : nat := if cutb P m i then 0 else S (r m i).

  Lemma fold_max_upper {X} (F : X -> nat) l x : In x l -> F x <= fold_right (fun x acc => Nat.max (F x) acc) 0 l.
  Proof. induction l as [|y l IH]; [intros []|]. intros [->|H]; cbn [fold_right]; [lia|]. specialize (IH H). lia. Qed.

  Lemma fold_max_witness {X} (F : X -> nat) l :
    fold_right (fun x acc => Nat.max (F x) acc) 0 l = 0 \/ exists x, In x l /\ fold_right (fun x acc => Nat.max (F x) acc) 0 l = F x.
  Proof.
    induction l as [|y l IH]; cbn [fold_right]; [left; reflexivity|].
    destruct (Nat.max_spec (F y) (fold_right (fun x acc => Nat.max (F x) acc) 0 l)) as [[_ E]|[_ E]]; rewrite E.
    - destruct IH as [IH|(x & Hx & IH)]; [left; exact IH|right; exists x; split; [right; exact Hx|exact IH]].
    - right. exists y. split; [left; reflexivity|reflexivity].
  Qed.

  Lemma fold_sum_upper {X} (F : X -> nat) l x : In x l -> F x <= fold_right (fun x acc => F x + acc) 0 l.
  Proof. induction l as [|y l IH]; [intros []|]. intros [->|H]; cbn [fold_right]; [lia|]. specialize (IH H). lia. Qed.

  Lemma existsb_in {X} (f : X -> bool) l x : In x l -> f x = true -> existsb f l = true.
  Proof. intros H1 H2. apply existsb_exists. exists x. split; assumption. Qed.

  Definition occP (m i : N) (e : expr) : Prop := occ m i e = true.

  Lemma erank_upper r m i : forall n e, size e <= n -> occP m i e -> score r m i <= erank P r e.
  Proof.
    unfold occP. induction n as [|n IH]; intros e Hs Ho; [destruct e; cbn [size] in Hs; lia|].
    destruct e; cbn [size] in Hs; cbn [occ] in Ho; cbn [erank]; try discriminate Ho; try (apply IH; [lia|exact Ho]).
    - (* EDecl *) apply andb_prop in Ho as [E1 E2]. apply N.eqb_eq in E1, E2. subst. unfold score. reflexivity.
    - (* EApp *) apply orb_prop in Ho as [Ho|Ho].
      + specialize (IH e ltac:(lia) Ho). lia.
      + apply existsb_exists in Ho as (x & Hx & Ho). pose proof (fold_sum_upper size args x Hx).
        specialize (IH x ltac:(lia) Ho). pose proof (fold_max_upper (erank P r) args x Hx). lia.
    - apply existsb_exists in Ho as (x & Hx & Ho). pose proof (fold_sum_upper size ps x Hx).
      specialize (IH x ltac:(lia) Ho). pose proof (fold_max_upper (erank P r) ps x Hx). lia.
    - apply existsb_exists in Ho as (x & Hx & Ho). pose proof (fold_sum_upper size es x Hx).
      specialize (IH x ltac:(lia) Ho). pose proof (fold_max_upper (erank P r) es x Hx). lia.
    - (* ECont *) apply orb_prop in Ho as [Ho|Ho].
      + destruct body as [b|]; [|discriminate Ho]. specialize (IH b ltac:(lia) Ho). lia.
      + apply existsb_exists in Ho as ([k x] & Hx & Ho). cbn [snd] in Ho.
        pose proof (fold_sum_upper (fun ke : N * expr => match ke with (_, e') => size e' end) metas (k, x) Hx) as H1. cbn beta iota in H1.
        specialize (IH x ltac:(lia) Ho).
        pose proof (fold_max_upper (fun ke : N * expr => match ke with (_, e') => erank P r e' end) metas (k, x) Hx) as H2. cbn beta iota in H2. lia.
    - (* EXfer *) apply orb_prop in Ho as [Ho|Ho]; [apply orb_prop in Ho as [Ho|Ho]|].
      + destruct domain as [b|]; [|discriminate Ho]. specialize (IH b ltac:(lia) Ho). lia.
      + specialize (IH e ltac:(lia) Ho). lia.
      + destruct params as [b|]; [|discriminate Ho]. specialize (IH b ltac:(lia) Ho). lia.
    - (* EUri *) apply orb_prop in Ho as [Ho|Ho].
      + apply existsb_exists in Ho as ([x|x] & Hx & Ho); [discriminate Ho|].
        pose proof (fold_sum_upper (fun sg : str + expr => match sg with inl _ => 0 | inr e' => size e' end) segs (inr x) Hx) as H1. cbn beta iota in H1.
        specialize (IH x ltac:(lia) Ho).
        pose proof (fold_max_upper (fun sg : str + expr => match sg with inl _ => 0 | inr e' => erank P r e' end) segs (inr x) Hx) as H2. cbn beta iota in H2. lia.
      + destruct params as [b|]; [|discriminate Ho]. specialize (IH b ltac:(lia) Ho). lia.
    - (* ERel *) apply orb_prop in Ho as [Ho|Ho].
      + specialize (IH e ltac:(lia) Ho). lia.
      + apply existsb_exists in Ho as (x & Hx & Ho). pose proof (fold_sum_upper size xfers x Hx).
        specialize (IH x ltac:(lia) Ho). pose proof (fold_max_upper (erank P r) xfers x Hx). lia.
  Qed.

  Definition wit (r : N -> N -> nat) (v : nat) (e : expr) : Prop :=
    v = 0 \/ exists m i, occP m i e /\ cutb P m i = false /\ v = S (r m i).

  Lemma wit_sub r v e e' : (forall m i, occP m i e -> occP m i e') -> wit r v e -> wit r v e'.
  Proof. intros H [->|(m & i & Ho & Hc & Hv)]; [left; reflexivity|right; exists m, i; auto]. Qed.

  Lemma wit_max r a b e : wit r a e -> wit r b e -> wit r (Nat.max a b) e.
  Proof. intros Ha Hb. destruct (Nat.max_spec a b) as [[_ ->]|[_ ->]]; assumption. Qed.

  Lemma erank_witness r : forall n e, size e <= n -> wit r (erank P r e) e.
  Proof.
    induction n as [|n IH]; intros e Hs; [destruct e; cbn [size] in Hs; lia|].
    destruct e; cbn [size] in Hs; cbn [erank]; try (left; reflexivity);
      try (eapply wit_sub; [|apply IH; lia]; intros m0 i0 Ho; unfold occP in *; cbn [occ]; exact Ho).
    - (* EDecl *) destruct (cutb P m i) eqn:Ec; [left; reflexivity|]. right. exists m, i. unfold occP. cbn [occ]. rewrite !N.eqb_refl. auto.
    - (* EApp *) apply wit_max.
      + eapply wit_sub; [|apply IH; lia]. intros m0 i0 Ho. unfold occP in *. cbn [occ]. rewrite Ho. reflexivity.
      + destruct (fold_max_witness (erank P r) args) as [->|(x & Hx & ->)]; [left; reflexivity|].
        pose proof (fold_sum_upper size args x Hx). eapply wit_sub; [|apply IH; lia].
        intros m0 i0 Ho. unfold occP in *. cbn [occ]. rewrite (existsb_in _ _ x Hx Ho). apply orb_true_r.
    - destruct (fold_max_witness (erank P r) ps) as [->|(x & Hx & ->)]; [left; reflexivity|].
      pose proof (fold_sum_upper size ps x Hx). eapply wit_sub; [|apply IH; lia].
      intros m0 i0 Ho. unfold occP in *. cbn [occ]. apply (existsb_in _ _ x Hx Ho).
    - destruct (fold_max_witness (erank P r) es) as [->|(x & Hx & ->)]; [left; reflexivity|].
      pose proof (fold_sum_upper size es x Hx). eapply wit_sub; [|apply IH; lia].
      intros m0 i0 Ho. unfold occP in *. cbn [occ]. apply (existsb_in _ _ x Hx Ho).
    - (* ECont *) apply wit_max.
      + destruct body as [b|]; [|left; reflexivity]. eapply wit_sub; [|apply IH; lia].
        intros m0 i0 Ho. unfold occP in *. cbn [occ]. rewrite Ho. reflexivity.
      + destruct (fold_max_witness (fun ke : N * expr => match ke with (_, e') => erank P r e' end) metas) as [->|([k x] & Hx & ->)]; [left; reflexivity|].
        pose proof (fold_sum_upper (fun ke : N * expr => match ke with (_, e') => size e' end) metas (k, x) Hx) as H1. cbn beta iota in H1.
        eapply wit_sub; [|apply IH; lia].
        intros m0 i0 Ho. unfold occP in *. cbn [occ]. rewrite (existsb_in (fun ke : N * expr => occ m0 i0 (snd ke)) _ (k, x) Hx Ho). apply orb_true_r.
    - (* EXfer *) apply wit_max; [|apply wit_max].
      + destruct domain as [b|]; [|left; reflexivity]. eapply wit_sub; [|apply IH; lia].
        intros m0 i0 Ho. unfold occP in *. cbn [occ]. rewrite Ho. reflexivity.
      + eapply wit_sub; [|apply IH; lia]. intros m0 i0 Ho. unfold occP in *. cbn [occ]. rewrite Ho. rewrite orb_true_r. reflexivity.
      + destruct params as [b|]; [|left; reflexivity]. eapply wit_sub; [|apply IH; lia].
        intros m0 i0 Ho. unfold occP in *. cbn [occ]. rewrite Ho. apply orb_true_r.
    - (* EUri *) apply wit_max.
      + destruct (fold_max_witness (fun sg : str + expr => match sg with inl _ => 0 | inr e' => erank P r e' end) segs) as [->|([x|x] & Hx & ->)]; [left; reflexivity|left; reflexivity|].
        pose proof (fold_sum_upper (fun sg : str + expr => match sg with inl _ => 0 | inr e' => size e' end) segs (inr x) Hx) as H1. cbn beta iota in H1.
        eapply wit_sub; [|apply IH; lia].
        intros m0 i0 Ho. unfold occP in *. cbn [occ].
        rewrite (existsb_in (fun sg : str + expr => match sg with inl _ => false | inr e' => occ m0 i0 e' end) _ (inr x) Hx Ho). reflexivity.
      + destruct params as [b|]; [|left; reflexivity]. eapply wit_sub; [|apply IH; lia].
        intros m0 i0 Ho. unfold occP in *. cbn [occ]. rewrite Ho. apply orb_true_r.
    - (* ERel *) apply wit_max.
      + eapply wit_sub; [|apply IH; lia]. intros m0 i0 Ho. unfold occP in *. cbn [occ]. rewrite Ho. reflexivity.
      + destruct (fold_max_witness (erank P r) xfers) as [->|(x & Hx & ->)]; [left; reflexivity|].
        pose proof (fold_sum_upper size xfers x Hx). eapply wit_sub; [|apply IH; lia].
        intros m0 i0 Ho. unfold occP in *. cbn [occ]. rewrite (existsb_in _ _ x Hx Ho). apply orb_true_r.
  Qed.

  (** ** the successive tables *)
  Lemma erank_mono r r' e : (forall m i, r m i <= r' m i) -> erank P r e <= erank P r' e.
  Proof.
    intros H. destruct (erank_witness r (size e) e (le_n _)) as [->|(m & i & Ho & Hc & ->)]; [lia|].
    pose proof (erank_upper r' m i (size e) e (le_n _) Ho) as Hu. unfold score in Hu. rewrite Hc in Hu. specialize (H m i). lia.
  Qed.

  Lemma rf_le k : forall m i, rf k m i <= k.
  Proof.
    induction k as [|k IH]; intros m i; cbn [rf]; [lia|]. unfold relaxf, step_decl.
    destruct (get_decl P m i) as [d|]; [|lia]. destruct (cutd d); [lia|].
    destruct (erank_witness (rf k) (size (d_rhs d)) (d_rhs d) (le_n _)) as [->|(m' & i' & _ & _ & ->)]; [lia|]. specialize (IH m' i'). lia.
  Qed.

  Lemma rf_mono k : forall m i, rf k m i <= rf (S k) m i.
  Proof.
    induction k as [|k IH]; intros m i; [cbn [rf]; lia|].
    change (relaxf (rf k) m i <= relaxf (rf (S k)) m i). unfold relaxf, step_decl.
    destruct (get_decl P m i) as [d|]; [|lia]. destruct (cutd d); [lia|]. apply erank_mono, IH.
  Qed.

  (** a value can only change at round [k + 1] by reaching [k + 1] *)
  Lemma rf_jump k : forall m i, rf k m i < rf (S k) m i -> rf (S k) m i = S k.
  Proof.
    induction k as [|k IH]; intros m i H.
    - pose proof (rf_le 1 m i). cbn [rf] in *. lia.
    - change (rf (S k) m i) with (relaxf (rf k) m i) in H. change (rf (S (S k)) m i) with (relaxf (rf (S k)) m i) in *.
      unfold relaxf, step_decl in *. destruct (get_decl P m i) as [d|]; [|lia]. destruct (cutd d); [lia|].
      destruct (erank_witness (rf (S k)) (size (d_rhs d)) (d_rhs d) (le_n _)) as [E|(m' & i' & Ho & Hc & E)]; [lia|].
      pose proof (erank_upper (rf k) m' i' (size (d_rhs d)) (d_rhs d) (le_n _) Ho) as Hu. unfold score in Hu. rewrite Hc in Hu.
      assert (Hlt : rf k m' i' < rf (S k) m' i') by lia. rewrite (IH m' i' Hlt) in E. exact E.
  Qed.

  (** ** chains of uses through declarations that are not cut *)
  Definition pos := (N * N)%type.
  Definition edge (x y : pos) : Prop :=
    match get_decl P (fst x) (snd x) with
    | Some d => cutd d = false /\ occP (fst y) (snd y) (d_rhs d) /\ cutb P (fst y) (snd y) = false
    | None => False
    end.
  Fixpoint chain (x : pos) (l : list pos) : Prop :=
    match l with [] => True | y :: l' => edge x y /\ chain y l' end.

  Lemma rf_chain : forall j k m i, j <= rf k m i -> exists l, length l = j /\ chain (m, i) l.
  Proof.
    induction j as [|j IH]; intros k m i H; [exists []; split; [reflexivity|exact I]|].
    destruct k as [|k]; [cbn [rf] in H; lia|]. change (rf (S k) m i) with (relaxf (rf k) m i) in H.
    unfold relaxf, step_decl in H. destruct (get_decl P m i) as [d|] eqn:Ed; [|lia]. destruct (cutd d) eqn:Ec; [lia|].
    destruct (erank_witness (rf k) (size (d_rhs d)) (d_rhs d) (le_n _)) as [E|(m' & i' & Ho & Hc & E)]; [lia|].
    destruct (IH k m' i' ltac:(lia)) as (l & Hl & Hch). exists ((m', i') :: l). split; [cbn [length]; lia|].
    cbn [chain]. split; [|exact Hch]. unfold edge. cbn [fst snd]. rewrite Ed. auto.
  Qed.

  (** a cycle of uses that avoids the cut declarations *)
  Definition cyclic : Prop := exists y l, chain y (l ++ [y]).

  Lemma chain_app x l1 y l2 : chain x (l1 ++ y :: l2) -> chain x (l1 ++ [y]) /\ chain y l2.
  Proof.
    revert x. induction l1 as [|z l1 IH]; intros x H; cbn [app chain] in *.
    - destruct H as [He Hc]. auto.
    - destruct H as [He Hc]. destruct (IH z Hc) as [A B]. auto.
  Qed.

  Lemma chain_targets x l : chain x l -> forall y, In y l -> cutb P (fst y) (snd y) = false.
  Proof.
    revert x. induction l as [|z l IH]; intros x H y Hy; [destruct Hy|]. cbn [chain] in H. destruct H as [He Hc].
    destruct Hy as [<-|Hy]; [|eapply IH; eassumption].
    unfold edge in He. destruct (get_decl P (fst x) (snd x)); [apply He|destruct He].
  Qed.

  Lemma pos_dec (a b : pos) : {a = b} + {a <> b}.
  Proof. decide equality; apply N.eq_dec. Qed.

  Lemma dup_split (l : list pos) : NoDup l \/ exists y l1 l2 l3, l = l1 ++ y :: l2 ++ y :: l3.
  Proof.
    induction l as [|a l IH]; [left; constructor|].
    destruct IH as [IH|(y & l1 & l2 & l3 & ->)].
    - destruct (in_dec pos_dec a l) as [Hin|Hnin]; [|left; constructor; assumption].
      right. apply in_split in Hin as (l2 & l3 & ->). exists a, [], l2, l3. reflexivity.
    - right. exists y, (a :: l1), l2, l3. reflexivity.
  Qed.

  (** all the positions that hold a declaration *)
  Definition positions : list pos :=
    flat_map (fun mds : N * list decl => map (fun idd : N * decl => (fst mds, fst idd)) (enum (snd mds))) (enum P).

  Lemma enum_length {A} (l : list A) : length (enum l) = length l.
  Proof. unfold enum. rewrite combine_length, map_length, seq_length. lia. Qed.

  Lemma map_snd_combine {A B} (a : list A) : forall b : list B, length a = length b -> map snd (combine a b) = b.
  Proof. induction a as [|x a IH]; intros [|y b] H; cbn in *; try reflexivity; try discriminate. f_equal. apply IH. lia. Qed.

  Lemma positions_length : length positions = ndecls P.
  Proof.
    unfold positions, ndecls.
    assert (G : forall l : list (N * list decl),
              length (flat_map (fun mds : N * list decl => map (fun idd : N * decl => (fst mds, fst idd)) (enum (snd mds))) l) =
              fold_right (fun ds acc => length ds + acc) 0 (map snd l)).
    { induction l as [|[m ds] l IH]; [reflexivity|]. cbn [flat_map map snd fold_right]. rewrite app_length, map_length, enum_length, IH. reflexivity. }
    rewrite G. unfold enum. rewrite map_snd_combine; [reflexivity|]. rewrite map_length, seq_length. reflexivity.
  Qed.

  Lemma enum_in' {A} (l : list A) n x : nth_error l n = Some x -> In (N.of_nat n, x) (enum l).
  Proof.
    unfold enum. assert (G : forall s, nth_error l n = Some x -> In (N.of_nat (s + n), x) (combine (map N.of_nat (List.seq s (length l))) l)).
    { revert n. induction l as [|y l IH]; intros [|n] s H; cbn [nth_error] in H; try discriminate.
      - injection H as ->. cbn [length seq map combine]. left. rewrite Nat.add_0_r. reflexivity.
      - cbn [length seq map combine]. right. replace (s + S n) with (S s + n) by lia. apply IH, H. }
    apply (G 0).
  Qed.

  Lemma valid_position m i d : get_decl P m i = Some d -> In (m, i) positions.
  Proof.
    unfold get_decl, positions. intros H. destruct (nth_error P (N.to_nat m)) as [ds|] eqn:Em; [|discriminate].
    apply in_flat_map. exists (m, ds). split; [rewrite <- (N2Nat.id m); apply enum_in', Em|].
    cbn [fst snd]. apply in_map_iff. exists (i, d). split; [reflexivity|]. rewrite <- (N2Nat.id i). apply enum_in', H.
  Qed.

  Lemma noncut_valid m i : cutb P m i = false -> exists d, get_decl P m i = Some d.
  Proof. unfold cutb. destruct (get_decl P m i) as [d|]; [eauto|discriminate]. Qed.

  (** more steps than declarations: the chain comes back to a declaration *)
  Lemma long_chain_cyclic x l : chain x l -> ndecls P < length l -> cyclic.
  Proof.
    intros Hc Hlen. destruct (dup_split l) as [Hnd|(y & l1 & l2 & l3 & ->)].
    - exfalso. assert (Hincl : incl l positions).
      { intros y Hy. pose proof (chain_targets x l Hc y Hy) as Hcut. destruct (noncut_valid _ _ Hcut) as [d Hd].
        destruct y as [m i]. eapply valid_position, Hd. }
      pose proof (NoDup_incl_length Hnd Hincl). rewrite positions_length in H. lia.
    - apply chain_app in Hc as [_ Hc]. replace (l2 ++ y :: l3) with (l2 ++ y :: l3) in Hc by reflexivity.
      apply chain_app in Hc as [Hc _]. exists y, l2. exact Hc.
  Qed.

  (** ** without such a cycle the relaxation is stable after as many rounds as declarations *)
  Hypothesis Hacyclic : ~ cyclic.

  Theorem rf_stable k : ndecls P <= k -> forall m i, rf (S k) m i = rf k m i.
  Proof.
    intros Hk m i. pose proof (rf_mono k m i) as Hm. destruct (Nat.eq_dec (rf (S k) m i) (rf k m i)) as [E|Hne]; [exact E|].
    exfalso. assert (Hj : rf (S k) m i = S k) by (apply rf_jump; lia).
    destruct (rf_chain (S k) (S k) m i ltac:(lia)) as (l & Hl & Hc). apply Hacyclic. eapply long_chain_cyclic; [exact Hc|lia].
  Qed.

  Definition rstar : N -> N -> nat := rf (S (ndecls P)).

  Lemma rstar_fix m i : relaxf rstar m i = rstar m i.
  Proof. unfold rstar. change (relaxf (rf (S (ndecls P))) m i) with (rf (S (S (ndecls P))) m i). apply rf_stable. lia. Qed.

  Lemma ranks_rstar m i : rank_of (ranks P) m i = rstar m i.
  Proof. unfold ranks, rstar. apply rank_of_iter. Qed.

  (** the rank condition of [strat_okb] for every declaration *)
  Theorem ranks_valid m i d : get_decl P m i = Some d -> cutd d = false ->
    erank P (rank_of (ranks P)) (d_rhs d) <= rank_of (ranks P) m i.
  Proof.
    intros Hd Hc. rewrite (erank_ext (rank_of (ranks P)) rstar) by apply ranks_rstar. rewrite ranks_rstar.
    rewrite <- (rstar_fix m i). unfold relaxf, step_decl. rewrite Hd, Hc. lia.
  Qed.

  (** ** [stratified] holds exactly of such programs when their bodies are first order *)
  Lemma enum_inv {A} (l : list A) i x : In (i, x) (enum l) -> nth_error l (N.to_nat i) = Some x.
  Proof.
    unfold enum. assert (G : forall s, In (i, x) (combine (map N.of_nat (List.seq s (length l))) l) -> exists n, i = N.of_nat (s + n) /\ nth_error l n = Some x).
    { induction l as [|y l IH]; intros s H; [destruct H|]. cbn [length List.seq map combine] in H. destruct H as [E|H].
      - injection E as <- <-. exists 0. split; [rewrite Nat.add_0_r; reflexivity|reflexivity].
      - destruct (IH (S s) H) as (n & -> & Hn). exists (S n). split; [f_equal; lia|exact Hn]. }
    intros H. destruct (G 0 H) as (n & -> & Hn). cbn [Nat.add]. rewrite Nat2N.id. exact Hn.
  Qed.

  Lemma all_decls_intro f : (forall m i d, get_decl P m i = Some d -> f m i d = true) -> all_decls P f = true.
  Proof.
    intros H. unfold all_decls. apply forallb_forall. intros [m ds] Hm. apply forallb_forall. intros [i d] Hi. cbn [fst snd] in *.
    apply H. unfold get_decl. rewrite (enum_inv P m ds Hm). apply (enum_inv ds i d Hi).
  Qed.

  Lemma nth_le_max n l : nth n l 0 <= fold_right Nat.max 0 l.
  Proof. revert n. induction l as [|x l IH]; intros [|n]; cbn [nth fold_right]; try lia. specialize (IH n). lia. Qed.

  Lemma rank_le_max rk m i : rank_of rk m i <= max_rank rk.
  Proof.
    unfold rank_of, max_rank. destruct (nth_error rk (N.to_nat m)) as [l|] eqn:E; [|lia].
    apply nth_error_In in E. pose proof (fold_max_upper (fun l : list nat => fold_right Nat.max 0 l) rk l E). pose proof (nth_le_max (N.to_nat i) l). lia.
  Qed.

  Lemma erank_le_R rk e : erank P (rank_of rk) e <= S (max_rank rk).
  Proof.
    destruct (erank_witness (rank_of rk) (size e) e (le_n _)) as [->|(m & i & _ & _ & ->)]; [lia|]. pose proof (rank_le_max rk m i). lia.
  Qed.

  Lemma decl_size_le rk rs m i d : get_decl P m i = Some d -> size (d_rhs d) <= max_size P rk rs.
  Proof.
    unfold get_decl, max_size. intros H. destruct (nth_error P (N.to_nat m)) as [ds|] eqn:Em; [|discriminate].
    apply nth_error_In in Em, H.
    pose proof (fold_max_upper (fun ds : list decl => fold_right (fun d acc' => Nat.max (size (d_rhs d)) acc') 0 ds) P ds Em) as H1.
    pose proof (fold_max_upper (fun d : decl => size (d_rhs d)) ds d H) as H2. cbn beta in H1. lia.
  Qed.

  Lemma res_size_le rk rs r : In r rs -> size r <= max_size P rk rs.
  Proof. unfold max_size. intros H. pose proof (fold_max_upper size rs r H). lia. Qed.

  Theorem acyclic_first_order_stratified rs :
    (forall m i d, get_decl P m i = Some d -> fo P (d_rhs d) = true) -> (forall r, In r rs -> fo P r = true) ->
    stratified P rs = true.
  Proof.
    intros Hfd Hfr. unfold stratified, strat_okb. apply andb_true_intro. split.
    - apply all_decls_intro. intros m i d Hd. unfold decl_sokb, expr_okb. rewrite (Hfd m i d Hd).
      rewrite (proj2 (Nat.leb_le _ _) (decl_size_le _ _ m i d Hd)), (proj2 (Nat.leb_le _ _) (erank_le_R _ _)). cbn [andb].
      destruct (cutd d) eqn:Ec; [reflexivity|]. cbn [orb]. apply Nat.leb_le. apply ranks_valid; assumption.
    - apply forallb_forall. intros r Hr. unfold expr_okb. rewrite (Hfr r Hr).
      rewrite (proj2 (Nat.leb_le _ _) (res_size_le _ _ r Hr)), (proj2 (Nat.leb_le _ _) (erank_le_R _ _)). reflexivity.
  Qed.
End Rank.

(** * the converse: a program that passes [strat_okb] with any rank table has no such cycle *)
Lemma edge_rank P rk R Z rs x y : strat_okb P rk R Z rs = true -> edge P x y ->
  rank_of rk (fst y) (snd y) < rank_of rk (fst x) (snd x).
Proof.
  intros H He. unfold edge in He. destruct (get_decl P (fst x) (snd x)) as [d|] eqn:Ed; [|destruct He].
  destruct He as (Hc & Ho & Hy). unfold strat_okb in H. apply andb_prop in H as [H _].
  assert (Hd : decl_sokb P (rank_of rk) R Z (fst x) (snd x) d = true).
  { unfold all_decls in H. rewrite forallb_forall in H. unfold get_decl in Ed.
    destruct (nth_error P (N.to_nat (fst x))) as [ds|] eqn:Em; [|discriminate].
    specialize (H (fst x, ds)). cbn [fst snd] in H.
    assert (Hin : In (fst x, ds) (enum P)) by (rewrite <- (N2Nat.id (fst x)); apply enum_in', Em).
    specialize (H Hin). rewrite forallb_forall in H. specialize (H (snd x, d)). cbn [fst snd] in H. apply H.
    rewrite <- (N2Nat.id (snd x)). apply enum_in', Ed. }
  unfold decl_sokb in Hd. apply andb_prop in Hd as [_ Hd]. rewrite Hc in Hd. cbn [orb] in Hd. apply Nat.leb_le in Hd.
  pose proof (erank_upper P (rank_of rk) (fst y) (snd y) (size (d_rhs d)) (d_rhs d) (le_n _) Ho) as Hu.
  unfold score in Hu. rewrite Hy in Hu. lia.
Qed.

Lemma chain_rank P rk R Z rs : strat_okb P rk R Z rs = true ->
  forall l x y, chain P x (l ++ [y]) -> rank_of rk (fst y) (snd y) < rank_of rk (fst x) (snd x).
Proof.
  intros H. induction l as [|z l IH]; intros x y Hc; cbn [app chain] in Hc.
  - destruct Hc as [He _]. eapply edge_rank; eassumption.
  - destruct Hc as [He Hc]. pose proof (edge_rank P rk R Z rs x z H He). specialize (IH z y Hc). lia.
Qed.

Theorem stratified_acyclic P rk R Z rs : strat_okb P rk R Z rs = true -> ~ cyclic P.
Proof. intros H (y & l & Hc). pose proof (chain_rank P rk R Z rs H l y y Hc). lia. Qed.

(** [stratified] is: first-order bodies and no cycle of uses that avoids the cut declarations *)
Theorem stratified_iff P rs :
  stratified P rs = true <->
  ~ cyclic P /\ (forall m i d, get_decl P m i = Some d -> fo P (d_rhs d) = true) /\ (forall r, In r rs -> fo P r = true).
Proof.
  split.
  - intros H. split; [eapply stratified_acyclic; exact H|]. unfold stratified, strat_okb in H. apply andb_prop in H as [Hd Hr]. split.
    + intros m i d Hg. unfold all_decls in Hd. rewrite forallb_forall in Hd. unfold get_decl in Hg.
      destruct (nth_error P (N.to_nat m)) as [ds|] eqn:Em; [|discriminate].
      assert (Hin : In (m, ds) (enum P)) by (rewrite <- (N2Nat.id m); apply enum_in', Em).
      specialize (Hd (m, ds) Hin). cbn [fst snd] in Hd. rewrite forallb_forall in Hd.
      assert (Hin' : In (i, d) (enum ds)) by (rewrite <- (N2Nat.id i); apply enum_in', Hg).
      specialize (Hd (i, d) Hin'). cbn [fst snd] in Hd. unfold decl_sokb, expr_okb in Hd.
      apply andb_prop in Hd as [Hd _]. apply andb_prop in Hd as [_ Hd]. exact Hd.
    + intros r Hin. rewrite forallb_forall in Hr. specialize (Hr r Hin). unfold expr_okb in Hr. apply andb_prop in Hr as [_ Hr]. exact Hr.
  - intros (Ha & Hd & Hr). apply acyclic_first_order_stratified; assumption.
Qed.
