(** Property C07 — type inference terminates and its verdict is independent of
    order and names. Statements only; proofs in Proofs/UnifyProofs.v.

    Proved (for every substitution, tag and equation list, no size bound):
    the unifier keeps its substitution triangular (acyclic), [reduce] terminates
    on such substitutions within an explicit fuel bound, an accepted system is
    solved by the result, and the self-containing type that the pinned tree let
    through (F2) is rejected by the fixed occurs check.
    Not proved (kept visible as [C07_full]; carried by the correspondence and the
    exhaustive small-system enumeration): termination of [unify] itself and
    completeness, hence permutation/renaming invariance of the verdict. *)
From Oal Require Import Tag Unify UnifyProofs.

Theorem C07_unify_sound_partial : forall n eqs s i s' j,
  TRI s -> unify_all n s eqs i = (UOk s', j) ->
  TRI s' /\ extends s s' /\ solves s' eqs.
Proof. exact unify_all_sound. Qed.
Print Assumptions C07_unify_sound_partial.

Theorem C07_reduce_total : forall s t,
  TRI s -> forall m, 1 + depth t + cost s <= m -> reduce m s t <> None.
Proof. exact reduce_total. Qed.
Print Assumptions C07_reduce_total.

Theorem C07_reduce_is_apply : forall s, TRI s -> forall n t r,
  reduce n s t = Some r -> r = apply s t /\ reduced s r.
Proof. exact reduce_apply. Qed.
Print Assumptions C07_reduce_is_apply.

Theorem C07_substitute_total : forall n eqs s' j t,
  unify_all n [] eqs 0 = (UOk s', j) ->
  forall m, 1 + depth t + cost s' <= m -> exists r, reduce m s' t = Some r /\ r = apply s' t.
Proof. exact substitute_total. Qed.
Print Assumptions C07_substitute_total.

Theorem C07_occurs_is_membership : forall v t, occurs v t = true <-> In v (vars t).
Proof. exact occurs_vars. Qed.
Print Assumptions C07_occurs_is_membership.

(** F2 on the pinned tree: the binding a |-> 'p a was accepted and reduce diverged *)
Theorem C07_reduce_diverges_pinned_refuted :
  unify_gen occurs_pinned 3 [] (TVar 0) (TProperty (TVar 0)) = UOk [(0%N, TProperty (TVar 0))]
  /\ forall n, reduce n [(0%N, TProperty (TVar 0))] (TVar 0) = None.
Proof. exact reduce_diverges_pinned. Qed.
Print Assumptions C07_reduce_diverges_pinned_refuted.

Theorem C07_self_property_rejected :
  unify 3 [] (TVar 0) (TProperty (TVar 0)) = UErr ERecursive.
Proof. exact self_property_rejected. Qed.
Print Assumptions C07_self_property_rejected.

(** the full statement, not proved here *)
Definition C07_full : Prop :=
  (forall eqs, exists n, fst (unify_all n [] eqs 0) <> UFuel) /\
  (forall eqs, (exists th, solves th eqs /\ TRI th) <->
               (exists n s j, unify_all n [] eqs 0 = (UOk s, j))).

(** non-vacuity: a system with a function tag and shared variables is accepted,
    its result is triangular and solves it *)
Example C07_accepts_something :
  let eqs := [(TVar 0, TFunc [TVar 1] (TVar 2)); (TVar 1, TBase BNumber);
              (TVar 0, TFunc [TBase BNumber] (TProperty (TVar 3)))] in
  exists s j, unify_all 10 [] eqs 0 = (UOk s, j) /\ TRI s.
Proof.
  cbv zeta.
  destruct (fst (unify_all 10 [] [(TVar 0, TFunc [TVar 1] (TVar 2)); (TVar 1, TBase BNumber);
              (TVar 0, TFunc [TBase BNumber] (TProperty (TVar 3)))] 0)) as [s| |] eqn:E;
    try (vm_compute in E; discriminate E).
  exists s. eexists. assert (H : unify_all 10 [] [(TVar 0, TFunc [TVar 1] (TVar 2)); (TVar 1, TBase BNumber);
              (TVar 0, TFunc [TBase BNumber] (TProperty (TVar 3)))] 0 = (UOk s, 3%N)).
  { vm_compute in E. vm_compute. congruence. }
  split; [exact H|]. exact (proj1 (unify_all_sound _ _ [] _ _ _ I H)).
Qed.
