//! Layer L7: the module loader driven through a recording in-memory `Loader`
//! (same protocol as runner/l_load.ml).
use oal_compiler::errors::{Error, Kind};
use oal_compiler::module::{load, Loader, ModuleSet};
use oal_compiler::tree::Tree;
use oal_model::locator::Locator;
use std::collections::HashMap;
use std::io::{BufRead, Write};

#[derive(Debug)]
enum E {
    Compiler(Error),
    Load(usize),
    Parse(usize),
    Compile(usize),
}

impl From<Error> for E {
    fn from(e: Error) -> Self {
        E::Compiler(e)
    }
}

enum File {
    Good(String),
    Bad,
    Missing,
}

struct Rec {
    files: HashMap<Locator, (usize, File)>,
    fails: Vec<usize>,
    events: Vec<String>,
    compiles: Vec<String>,
}

/// modules live in three nested directories, so that a relative import only resolves against
/// the directory of the importing module
fn dir_of(i: usize) -> Vec<&'static str> {
    match i % 3 {
        0 => vec!["r"],
        1 => vec!["r", "s"],
        _ => vec!["r", "s", "t"],
    }
}

fn loc_of(i: usize) -> Locator {
    // modules 3k, 3k+1, 3k+2 have the same file name in three nested directories: the same relative
    // spelling names different modules depending on the importing module
    Locator::try_from(format!("file:///{}/m{}.oal", dir_of(i).join("/"), i / 3).as_str()).unwrap()
}

impl Rec {
    fn id(&self, loc: &Locator) -> usize {
        self.files.get(loc).map(|f| f.0).unwrap_or_else(|| {
            // unknown locator: recover the number from the file name if possible
            let s = loc.url().path();
            let depth = s.matches('/').count().saturating_sub(2);       // /r/mK.oal -> 0, /r/s/mK.oal -> 1, /r/s/t/mK.oal -> 2
            s.rsplit('/')
                .next()
                .and_then(|n| n.strip_prefix('m'))
                .and_then(|n| n.strip_suffix(".oal"))
                .and_then(|n| n.parse::<usize>().ok())
                .map(|k| 3 * k + depth.min(2))
                .unwrap_or(9999)
        })
    }
}

impl Loader<E> for Rec {
    fn is_valid(&mut self, loc: &Locator) -> bool {
        let id = self.id(loc);
        self.events.push(format!("V{}", id));
        matches!(self.files.get(loc), Some((_, File::Good(_))) | Some((_, File::Bad)))
    }
    fn load(&mut self, loc: &Locator) -> Result<String, E> {
        let id = self.id(loc);
        self.events.push(format!("L{}", id));
        match self.files.get(loc) {
            Some((_, File::Good(s))) => Ok(s.clone()),
            Some((_, File::Bad)) => Ok("let = ;".to_owned()),
            _ => Err(E::Load(id)),
        }
    }
    fn parse(&mut self, loc: Locator, input: String) -> Result<Tree, E> {
        let id = self.id(&loc);
        self.events.push(format!("P{}", id));
        let (tree, errs) = oal_syntax::parse(loc, input);
        if !errs.is_empty() {
            return Err(E::Parse(id));
        }
        tree.ok_or(E::Parse(id))
    }
    fn compile(&mut self, _mods: &ModuleSet, loc: &Locator) -> Result<(), E> {
        let id = self.id(loc);
        self.compiles.push(format!("C{}", id));
        if self.fails.contains(&id) {
            Err(E::Compile(id))
        } else {
            Ok(())
        }
    }
}

/// a relative reference to module `t` as written in module `from`, in one of five spellings
fn spelling(from: usize, t: usize, k: usize) -> String {
    let (df, dt) = (dir_of(from), dir_of(t));
    let common = df.iter().zip(dt.iter()).take_while(|(a, b)| a == b).count();
    // shortest: up to the common ancestor, then down
    let mut short = "../".repeat(df.len() - common);
    for d in &dt[common..] {
        short.push_str(d);
        short.push('/');
    }
    short.push_str(&format!("m{}.oal", t / 3));
    // through the root
    let long = format!("{}{}/m{}.oal", "../".repeat(df.len()), dt.join("/"), t / 3);
    match k {
        1 => format!("./{}", short),
        2 => format!("x/../{}", short),
        3 => long,
        4 => format!("./y/.././{}", short),
        _ => short,
    }
}

pub fn run() {
    let stdin = std::io::stdin();
    let stdout = std::io::stdout();
    let mut out = stdout.lock();
    for line in stdin.lock().lines() {
        let line = line.unwrap();
        let ws: Vec<&str> = line.split_whitespace().collect();
        match ws.as_slice() {
            ["L", base, rest @ ..] => {
                let base: usize = base.parse().unwrap();
                let mut parts = rest.split(|w| *w == "|");
                let files_ws = parts.next().unwrap_or(&[]);
                let fail_ws = parts.next().unwrap_or(&[]);
                let mut rec = Rec {
                    files: HashMap::new(),
                    fails: fail_ws.iter().map(|w| w.parse().unwrap()).collect(),
                    events: Vec::new(),
                    compiles: Vec::new(),
                };
                for grp in files_ws.split(|w| *w == ";") {
                    match grp {
                        [id, "G", ts @ ..] => {
                            let id: usize = id.parse().unwrap();
                            let mut src = String::new();
                            for (j, t) in ts.iter().enumerate() {
                                let mut it = t.split(':');
                                let tn: usize = it.next().unwrap().parse().unwrap();
                                let k: usize = it.next().map(|s| s.parse().unwrap()).unwrap_or(0);
                                // imports need not come first: a declaration may stand between (or before) them
                                if (id + j) % 3 == 1 {
                                    src.push_str(&format!("let d{} = num;\n", j));
                                }
                                src.push_str(&format!("use \"{}\";\n", spelling(id, tn, k)));
                            }
                            rec.files.insert(loc_of(id), (id, File::Good(src)));
                        }
                        [id, "B"] => {
                            let id: usize = id.parse().unwrap();
                            rec.files.insert(loc_of(id), (id, File::Bad));
                        }
                        [id, "M"] => {
                            let id: usize = id.parse().unwrap();
                            rec.files.insert(loc_of(id), (id, File::Missing));
                        }
                        _ => {}
                    }
                }
                let res = std::panic::catch_unwind(std::panic::AssertUnwindSafe(|| {
                    let r = load(&mut rec, &loc_of(base));
                    r.map(|m| m.len())
                }));
                let verdict = match res {
                    Err(_) => "panic".to_owned(),
                    Ok(Ok(_)) => "ok".to_owned(),
                    Ok(Err(E::Load(i))) => format!("err:load:{}", i),
                    Ok(Err(E::Parse(i))) => format!("err:parse:{}", i),
                    Ok(Err(E::Compile(i))) => format!("err:compile:{}", i),
                    Ok(Err(E::Compiler(e))) => {
                        let from = e.span().map(|s| rec.id(s.locator())).unwrap_or(9999);
                        match &e.kind {
                            Kind::InvalidModule(t) => format!("err:invalid:{}:{}", rec.id(t), from),
                            Kind::CycleDetected => format!("err:cycle:{}", from),
                            k => format!("err:other:{}", k),
                        }
                    }
                };
                writeln!(out, "{} | {} | {}", verdict, rec.events.join(" "), rec.compiles.join(" ")).unwrap();
            }
            ["J", dir, rel] => {
                let base = format!("file://{}/importer.oal", if dir.is_empty() || *dir == "/" { "".to_owned() } else { dir.trim_end_matches('/').to_owned() });
                let r = Locator::try_from(base.as_str()).and_then(|l| l.join(rel).map_err(|_| url::ParseError::EmptyHost));
                match r {
                    Ok(l) => writeln!(out, "{}", l.url().path()).unwrap(),
                    Err(_) => writeln!(out, "error").unwrap(),
                }
            }
            _ => writeln!(out, "?").unwrap(),
        }
        out.flush().unwrap();
    }
}
