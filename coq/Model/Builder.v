(** Model of oal-openapi/src/lib.rs (Builder, without a base document): from the evaluator's
    Spec to the OpenAPI document, as a JSON value in the shape openapiv3's serde attributes
    produce (absent options and empty collections are skipped). Strings are lists of code
    points; [strs] decodes the evaluator's interned strings; [names] gives the name of every
    entry of the reference table by position (implicit names are sha256 hashes in the code and
    are supplied by the harness). A missing reference is the code's
    [expect("reference should exist")] panic: [None]. *)
From Oal Require Export Eval BuilderKeys.
Local Open Scope N_scope.

Definition text := list N.

Inductive json :=
| JNull
| JBool (b : bool)
| JInt (z : Z)
| JFlt (id : N)
| JStr (t : text)
| JArr (l : list json)
| JObj (m : list (text * json)).

Section Builder.
  Variable strs : N -> text.
  Variable table : list (rkey * schema).
  Variable names : list text.

  Fixpoint key_pos (k : rkey) (l : list (rkey * schema)) (i : nat) : option (nat * schema) :=
    match l with
    | [] => None
    | (k', s) :: l' => if rkey_eqb k k' then Some (i, s) else key_pos k l' (S i)
    end.

  Definition name_at (i : nat) : text := nth i names [].
  Definition untagged (t : text) : text := match t with 64 :: r => r | _ => t end.      (* strip '@' *)
  Definition is_named (k : rkey) : bool := match k with KNamed _ => true | _ => false end.

  Definition jopt (k : text) (o : option json) : list (text * json) := match o with Some v => [(k, v)] | None => [] end.
  Definition jstr (s : str) : json := JStr (strs s).
  Definition jnum (n : num) : json := match n with NumI z => JInt z | NumF i => JFlt i end.

  Definition lower (c : N) : N := if N.leb 65 c && N.leb c 90 then c + 32 else c.

  (** Uri::pattern_with *)
  Definition pattern_with (f : property -> text) (u : uri) : text :=
    match u with
    | Uri path _ _ =>
        flat_map (fun sg => T_slash ++ match sg with ULit l => strs l | UVar p => f p end) path
    end.

  Definition prop_name (p : property) : str := match p with Prop_ n _ _ _ => n end.

  Definition uri_example_default (u : uri) : text :=
    pattern_with (fun p =>
      match p with
      | Prop_ n (Schema e _ _ _ _) _ _ =>
          T_underscore ++ strs n ++ T_underscore ++
          match e with SNum _ _ _ _ => T_number | SStr _ _ _ _ _ _ => T_string | SBool => T_boolean | SInt _ _ _ _ => T_integer | _ => T_unknown end
          ++ T_underscore
      end) u.

  (** the fields of a schema other than description / title *)
  Definition uri_fields (u : uri) : list (text * json) :=
    match u with
    | Uri path _ ex =>
        [(T_type, JStr T_string); (T_format, JStr T_uriref)] ++
        jopt T_example (match ex with
                        | Some e => Some (jstr e)
                        | None => match path with [] => None | _ => Some (JStr (uri_example_default u)) end
                        end)
    end.

  Definition atomic_fields (e : sexpr) : option (list (text * json)) :=
    match e with
    | SNum mn mx mo ex =>
        Some ([(T_type, JStr T_number)] ++ jopt T_minimum (option_map jnum mn) ++ jopt T_maximum (option_map jnum mx) ++
              jopt T_multipleOf (option_map jnum mo) ++ jopt T_example (option_map jnum ex))
    | SStr pat en fmt ex mnl mxl =>
        Some ([(T_type, JStr T_string)] ++ jopt T_format (option_map jstr fmt) ++ jopt T_pattern (option_map jstr pat) ++
              (match en with [] => [] | _ => [(T_enum, JArr (map jstr en))] end) ++
              jopt T_minLength (option_map JInt mnl) ++ jopt T_maxLength (option_map JInt mxl) ++
              jopt T_example (match ex with Some e => Some (jstr e) | None => match en with e :: _ => Some (jstr e) | [] => None end end))
    | SBool => Some [(T_type, JStr T_boolean)]
    | SInt mn mx mo ex =>
        Some ([(T_type, JStr T_integer)] ++ jopt T_minimum (option_map JInt mn) ++ jopt T_maximum (option_map JInt mx) ++
              jopt T_multipleOf (option_map JInt mo) ++ jopt T_example (option_map JInt ex))
    | SRel (Rel u _) => Some (uri_fields u)
    | SUri u => Some (uri_fields u)
    | _ => None
    end.

  Definition with_meta (fs : list (text * json)) (desc title : option str) : json :=
    JObj (fs ++ jopt T_description (option_map jstr desc) ++ jopt T_title (option_map jstr title)).

  (** value_schema restricted to the atomic kinds (what maybe_inline returns) *)
  Definition atomic_json (s : schema) : option json :=
    match s with Schema e desc title _ _ => match atomic_fields e with Some fs => Some (with_meta fs desc title) | None => None end end.

  Definition jref (i : nat) : json := JObj [(T_ref, JStr (T_refprefix ++ untagged (name_at i)))].

  (** reference_schema: [None] is the panic on a missing reference *)
  Definition reference_json (k : rkey) : option json :=
    match key_pos k table 0 with
    | None => None
    | Some (i, s) =>
        if is_named k then Some (jref i)
        else match atomic_json s with Some j => Some j | None => Some (jref i) end
    end.

  Definition oall {A} (l : list (option A)) : option (list A) :=
    fold_right (fun o acc => match o, acc with Some x, Some xs => Some (x :: xs) | _, _ => None end) (Some []) l.

  Definition schema_required (s : schema) : option bool := match s with Schema _ _ _ r _ => r end.
  Definition prop_required (p : property) : bool :=
    match p with Prop_ _ s _ r => match r with Some b => b | None => match schema_required s with Some b => b | None => false end end end.

  (** Builder::schema / value_schema *)
  Fixpoint schema_json (s : schema) : option json :=
    match s with
    | Schema e desc title _ _ =>
        match e with
        | SRef k => reference_json k
        | SArr i =>
            match schema_json i with
            | Some ij => Some (with_meta [(T_type, JStr T_array); (T_items, ij)] desc title)
            | None => None
            end
        | SObj ps =>
            match oall (map (fun p => match p with Prop_ n ps' _ _ =>
                                         match schema_json ps' with Some j => Some (strs n, j) | None => None end end) ps) with
            | Some props =>
                let req := map (fun p => JStr (strs (prop_name p))) (filter prop_required ps) in
                Some (with_meta ([(T_type, JStr T_object)] ++
                                 (match props with [] => [] | _ => [(T_properties, JObj props)] end) ++
                                 (match req with [] => [] | _ => [(T_required, JArr req)] end)) desc title)
            | None => None
            end
        | SOp op ss =>
            match oall (map schema_json ss) with
            | Some js =>
                match op with
                | OJoin => Some (with_meta [(T_allOf, JArr js)] desc title)
                | OAny => Some (with_meta [(T_anyOf, JArr js)] desc title)
                | OSum => Some (with_meta [(T_oneOf, JArr js)] desc title)
                end
            | None => None
            end
        | _ => atomic_json s
        end
    end.

  Definition obind {X Y} (o : option X) (f : X -> option Y) : option Y := match o with Some x => f x | None => None end.

  (** parameters and headers *)
  Definition param_json (where_ style : text) (required : bool) (p : property) : option json :=
    match p with
    | Prop_ n s desc _ =>
        obind (schema_json s) (fun sj =>
          Some (JObj ([(T_in, JStr where_); (T_name, JStr (strs n))] ++ jopt T_description (option_map jstr desc) ++
                      (if required then [(T_required, JBool true)] else []) ++
                      [(T_schema, sj); (T_style, JStr style)])))
    end.
  Definition own_required (p : property) : bool := match p with Prop_ _ _ _ (Some b) => b | _ => false end.
  Definition path_param (p : property) := param_json T_path T_simple true p.
  Definition query_param (p : property) := param_json T_query T_form (own_required p) p.
  Definition header_param (p : property) := param_json T_header T_simple (own_required p) p.

  Definition header_json (p : property) : option (text * json) :=
    match p with
    | Prop_ n s desc _ =>
        obind (schema_json s) (fun sj =>
          Some (strs n, JObj (jopt T_description (option_map jstr desc) ++ (if own_required p then [(T_required, JBool true)] else []) ++
                              [(T_schema, sj); (T_style, JStr T_simple)])))
    end.

  Definition oprops (o : option (list property)) : list property := match o with Some ps => ps | None => [] end.

  Definition uri_params_json (u : uri) : option (list json) :=
    match u with
    | Uri path prm _ =>
        oall (flat_map (fun sg => match sg with UVar p => [path_param p] | ULit _ => [] end) path ++ map query_param (oprops prm))
    end.

  (** content_examples *)
  Definition content_examples (c : content) : list (text * json) :=
    match c with
    | Content s _ _ _ _ ex =>
        let e := match ex with Some e => Some e | None => match s with Some (Schema _ _ _ _ se) => se | None => None end end in
        match e with
        | None => []
        | Some l => map (fun kv : str * str => (strs (fst kv), JObj [(T_externalValue, jstr (snd kv))])) l
        end
    end.

  Definition media_json (c : content) (sj : json) : json :=
    JObj ([(T_schema, sj)] ++ match content_examples c with [] => [] | l => [(T_examples, JObj l)] end).

  Definition media_of (m : option str) : text := match m with Some x => strs x | None => T_appjson end.

  (** domain_request *)
  Definition request_json (d : content) : option (option json) :=
    match d with
    | Content None _ _ _ _ _ => Some None
    | Content (Some s) _ media _ desc _ =>
        obind (schema_json s) (fun sj =>
          Some (Some (JObj ([(T_content, JObj [(media_of media, media_json d sj)])] ++ jopt T_description (option_map jstr desc)))))
    end.

  (** decimal rendering of a status code *)
  Fixpoint digits (fuel : nat) (n : N) (acc : text) : text :=
    match fuel with
    | O => acc
    | S f => let acc' := (48 + n mod 10) :: acc in if N.eqb (n / 10) 0 then acc' else digits f (n / 10) acc'
    end.
  Definition status_key (s : option status) : text :=
    match s with
    | None => T_default
    | Some (StCode n) => digits 20 n []
    | Some (StRange c) => (48 + c + 1) :: T_xx          (* Info = 0 -> "1XX" *)
    end.

  (** xfer_responses: a response per status key in order of first appearance; contents sharing a
      key add their media type (later wins), their headers, and the last given description wins *)
  Record resp := mk_resp { r_desc : text; r_content : list (text * json); r_headers : list (text * json) }.

  Fixpoint put {V} (k : text) (v : V) (m : list (text * V)) : list (text * V) :=
    match m with
    | [] => [(k, v)]
    | (k', v') :: m' => if list_eq_dec N.eq_dec k k' then (k', v) :: m' else (k', v') :: put k v m'
    end.
  Fixpoint get {V} (k : text) (m : list (text * V)) : option V :=
    match m with [] => None | (k', v) :: m' => if list_eq_dec N.eq_dec k k' then Some v else get k m' end.

  Definition add_content (r : resp) (c : content) : option resp :=
    match c with
    | Content s _ media hd desc _ =>
        obind (match s with
               | None => Some (r_content r)
               | Some sc => obind (schema_json sc) (fun sj => Some (put (media_of media) (media_json c sj) (r_content r)))
               end) (fun cont =>
        obind (oall (map header_json (oprops hd))) (fun hs =>
          Some (mk_resp (match desc with Some d => strs d | None => r_desc r end) cont
                        (fold_left (fun m kv => put (fst kv) (snd kv) m) hs (r_headers r)))))
    end.

  Definition resp_json (r : resp) : json :=
    JObj ([(T_description, JStr (r_desc r))] ++
          (match r_headers r with [] => [] | l => [(T_headers, JObj l)] end) ++
          (match r_content r with [] => [] | l => [(T_content, JObj l)] end)).

  Fixpoint responses (rg : ranges) (acc : list (text * resp)) : option (list (text * resp)) :=
    match rg with
    | [] => Some acc
    | ((st, _), c) :: rg' =>
        let k := status_key st in
        let r0 := match get k acc with Some r => r | None => mk_resp [] [] [] end in
        obind (add_content r0 c) (fun r => responses rg' (put k r acc))
    end.

  (** serde writes `default` first, then the coded responses in insertion order *)
  Definition responses_json (rg : ranges) : option json :=
    obind (responses rg []) (fun rs =>
      let d := filter (fun kr => if list_eq_dec N.eq_dec (fst kr) T_default then true else false) rs in
      let o := filter (fun kr => if list_eq_dec N.eq_dec (fst kr) T_default then false else true) rs in
      Some (JObj (map (fun kr => (fst kr, resp_json (snd kr))) (d ++ o)))).

  Definition method_label (m : nat) : text :=
    match m with 0%nat => T_get | 1%nat => T_put | 2%nat => T_post | 3%nat => T_patch | 4%nat => T_delete | 5%nat => T_options | _ => T_head end.

  Definition seg_label (sg : useg) : text :=
    match sg with
    | ULit l => match strs l with [] => T_root | t => map lower t end
    | UVar p => map lower (strs (prop_name p))
    end.

  Fixpoint join_dash (l : list text) : text :=
    match l with [] => [] | [x] => x | x :: r => x ++ T_dash ++ join_dash r end.

  Definition xfer_id (t : transfer) (m : nat) (u : uri) : text :=
    match t with
    | Xfer _ _ _ _ _ _ _ (Some i) => strs i
    | _ => match u with Uri path _ _ => join_dash (method_label m :: map seg_label path) end
    end.

  Definition operation_json (u : uri) (m : nat) (t : transfer) : option json :=
    match t with
    | Xfer _ dom rg prm desc summ tags _ =>
        let oid := xfer_id t m u in
        let summary := match summ with Some s => strs s | None => match desc with Some d => strs d | None => oid end end in
        obind (oall (map query_param (oprops prm) ++
                     map header_param (oprops (match dom with Content _ _ _ hd _ _ => hd end)))) (fun params =>
        obind (request_json dom) (fun rb =>
        obind (responses_json rg) (fun rs =>
          Some (JObj ((match tags with [] => [] | _ => [(T_tags, JArr (map jstr tags))] end) ++
                      [(T_summary, JStr summary)] ++ jopt T_description (option_map jstr desc) ++
                      [(T_operationId, JStr oid)] ++
                      (match params with [] => [] | _ => [(T_parameters, JArr params)] end) ++
                      jopt T_requestBody rb ++ [(T_responses, rs)])))))
    end.

  Fixpoint ops_json (u : uri) (xs : list (option transfer)) (m : nat) : option (list (text * json)) :=
    match xs with
    | [] => Some []
    | None :: xs' => ops_json u xs' (S m)
    | Some t :: xs' =>
        obind (operation_json u m t) (fun oj => obind (ops_json u xs' (S m)) (fun r => Some ((method_label m, oj) :: r)))
    end.

  Definition path_item_json (r : relation) : option (text * json) :=
    match r with
    | Rel u xs =>
        obind (uri_params_json u) (fun params =>
        obind (ops_json u xs 0) (fun ops =>
          Some (pattern_with (fun p => T_lbrace ++ strs (prop_name p) ++ T_rbrace) u,
                JObj (ops ++ match params with [] => [] | _ => [(T_parameters, JArr params)] end))))
    end.

  (** all_paths: an IndexMap collected from the relations (a repeated path replaces the earlier item in place) *)
  Definition paths_json (rels : list relation) : option json :=
    obind (oall (map path_item_json rels)) (fun items =>
      Some (JObj (fold_left (fun m kv => put (fst kv) (snd kv) m) items []))).

  (** all_components: the entries that are not inlined, under their untagged names *)
  Fixpoint components (l : list (rkey * schema)) (i : nat) (acc : list (text * json)) : option (list (text * json)) :=
    match l with
    | [] => Some acc
    | (k, s) :: l' =>
        if negb (is_named k) && match atomic_json s with Some _ => true | None => false end then components l' (S i) acc
        else obind (schema_json s) (fun sj => components l' (S i) (put (untagged (name_at i)) sj acc))
    end.

  Definition document (rels : list relation) : option json :=
    obind (paths_json rels) (fun ps =>
    obind (components table 0 []) (fun cs =>
      Some (JObj [(T_openapi, JStr T_v303);
                  (T_info, JObj [(T_title, JStr T_deftitle); (T_version, JStr T_v010)]);
                  (T_servers, JArr [JObj [(T_url, JStr T_slash)]]);
                  (T_paths, ps);
                  (T_components, JObj (match cs with [] => [] | _ => [(T_schemas, JObj cs)] end))]))).
End Builder.
