"""Minimal JSON-RPC client driving the real oal-lsp binary over stdio."""
import json
import os
import queue
import subprocess
import threading
import time
from . import core


class Server:
    def __init__(self, root_dir, env=None):
        self.root = root_dir
        self.p = subprocess.Popen([core.LSP], stdin=subprocess.PIPE, stdout=subprocess.PIPE, stderr=subprocess.PIPE,
                                  cwd=root_dir, env=env or dict(os.environ, RUST_BACKTRACE="0"))
        self.q = queue.Queue()
        self.stderr = []
        self.next_id = 1
        self.diags = {}          # uri -> last published diagnostics
        self.published = []      # every publishDiagnostics in order
        threading.Thread(target=self._reader, daemon=True).start()
        threading.Thread(target=self._err, daemon=True).start()

    def _err(self):
        for l in self.p.stderr:
            self.stderr.append(l.decode("utf8", "replace"))
            if len(self.stderr) > 200:
                self.stderr = self.stderr[-100:]

    def _reader(self):
        f = self.p.stdout
        while True:
            headers = {}
            while True:
                line = f.readline()
                if not line:
                    self.q.put(None)
                    return
                line = line.decode("ascii", "replace").strip()
                if not line:
                    break
                if ":" in line:
                    k, v = line.split(":", 1)
                    headers[k.strip().lower()] = v.strip()
            n = int(headers.get("content-length", "0"))
            body = f.read(n)
            try:
                self.q.put(json.loads(body))
            except Exception:
                self.q.put({"garbage": body[:100].decode("utf8", "replace")})

    def send(self, msg):
        data = json.dumps(msg).encode()
        try:
            self.p.stdin.write(b"Content-Length: %d\r\n\r\n" % len(data) + data)
            self.p.stdin.flush()
            return True
        except (BrokenPipeError, OSError):
            return False

    def notify(self, method, params):
        return self.send({"jsonrpc": "2.0", "method": method, "params": params})

    def _absorb(self, msg):
        if msg.get("method") == "textDocument/publishDiagnostics":
            p = msg["params"]
            self.diags[p["uri"]] = p["diagnostics"]
            self.published.append(p)

    def request(self, method, params, timeout=20):
        rid = self.next_id
        self.next_id += 1
        if not self.send({"jsonrpc": "2.0", "id": rid, "method": method, "params": params}):
            return {"dead": True}
        end = time.time() + timeout
        while time.time() < end:
            try:
                msg = self.q.get(timeout=max(0.01, end - time.time()))
            except queue.Empty:
                break
            if msg is None:
                return {"dead": True}
            if msg.get("id") == rid and ("result" in msg or "error" in msg):
                return msg
            self._absorb(msg)
        return {"timeout": True}

    def drain(self, wait=0.0):
        end = time.time() + wait
        while True:
            try:
                msg = self.q.get(timeout=max(0.0, end - time.time()) if wait else 0)
            except queue.Empty:
                return
            if msg is None:
                return
            self._absorb(msg)

    def initialize(self, folders=None):
        """folders: sub-directories of the root that are workspace folders of their own (each with its oal.toml)"""
        root_uri = "file://" + self.root
        wf = [{"uri": root_uri, "name": "w"}] if not folders else [{"uri": root_uri + "/" + d, "name": d} for d in folders]
        r = self.request("initialize", {
            "processId": None, "rootUri": root_uri,
            "capabilities": {"general": {"positionEncodings": ["utf-16"]}},
            "workspaceFolders": wf})
        self.notify("initialized", {})
        return r

    def alive(self):
        return self.p.poll() is None

    def open(self, uri, text):
        self.notify("textDocument/didOpen", {"textDocument": {"uri": uri, "languageId": "oal", "version": 1, "text": text}})

    def change(self, uri, changes, version=2):
        self.notify("textDocument/didChange", {"textDocument": {"uri": uri, "version": version}, "contentChanges": changes})

    def close_doc(self, uri):
        self.notify("textDocument/didClose", {"textDocument": {"uri": uri}})

    def pos_request(self, method, uri, line, ch, extra=None):
        params = {"textDocument": {"uri": uri}, "position": {"line": line, "character": ch}}
        if extra:
            params.update(extra)
        return self.request(method, params)

    def stop(self):
        try:
            self.p.kill()
        except OSError:
            pass
        try:
            self.p.wait(timeout=5)
        except Exception:
            pass


def write_workspace(root, files, main="main.oal"):
    os.makedirs(root, exist_ok=True)
    with open(os.path.join(root, "oal.toml"), "w") as f:
        f.write('[api]\nmain = "%s"\ntarget = "out.yaml"\n' % main)
    for name, text in files.items():
        path = os.path.join(root, name)
        os.makedirs(os.path.dirname(path), exist_ok=True)
        with open(path, "w") as f:
            f.write(text)
