(* layer diag: Diag.diagnostics. Input: "D <docs...> | R <reported...> | E <loc> <diag> <loc> <diag> ..."
   (numbers). Output: "<loc>=<d>,<d>;<loc>=;... | <reported...>" in the order of the model's list *)
open Conv

let split_bar (ws : string list) : string list list =
  let rec go acc cur = function
    | [] -> Stdlib.List.rev (Stdlib.List.rev cur :: acc)
    | "|" :: r -> go (Stdlib.List.rev cur :: acc) [] r
    | w :: r -> go acc (w :: cur) r in
  go [] [] ws

let rec pairs = function a :: b :: r -> (n_of_int a, n_of_int b) :: pairs r | _ -> []

let run () =
  each_line (fun line ->
      match split_bar (words line) with
      | [ "D" :: ds; "R" :: rs; "E" :: es ] ->
          let (b, rep) = Diag.diagnostics (Stdlib.List.map n_of_int (ints ds)) (Stdlib.List.map n_of_int (ints rs)) (pairs (ints es)) in
          let entry (l, ds) = Printf.sprintf "%d=%s" (int_of_n l) (String.concat "," (Stdlib.List.map (fun d -> string_of_int (int_of_n d)) ds)) in
          print_endline
            (String.concat ";" (Stdlib.List.map entry b) ^ " | " ^ String.concat " " (Stdlib.List.map (fun l -> string_of_int (int_of_n l)) rep))
      | _ -> print_endline "ERROR bad request")
