(** Stratification of a program: what the recursion check (typecheck.rs cycles_check)
    guarantees of accepted programs, in the form the termination proof needs.

    A declaration is *cut* when the evaluator memoises it in the reference table (it is an
    @reference or it was flagged recursive by the recursion check): evaluating it a second
    time, even from inside itself, returns at once. Every other declaration (functions
    included) is entered each time it is used, so the uses among those must be well founded:
    [rank] is a witness, computed here by relaxation and checked by [strat_okb]. *)
From Oal Require Export Eval.
From Coq Require Import Arith.
Local Open Scope nat_scope.

Definition cutd (d : decl) : bool :=
  match d_params d with [] => (match d_ref d with Some _ => true | None => false end) || d_rec d | _ => false end.

Definition key_of (d : decl) (m i : N) : rkey := match d_ref d with Some x => KNamed x | None => KDecl m i end.

Section Strat.
  Variable P : prog.
  Variable rank : N -> N -> nat.

  Definition cutb (m i : N) : bool := match get_decl P m i with Some d => cutd d | None => true end.

  Fixpoint size (e : expr) : nat :=
    match e with
    | ETerm _ e' | ESub e' | EProp _ _ e' | EUnary _ e' | EArr e' | ERec _ _ _ e' => S (size e')
    | EPrim _ | ELitStr _ | ELitNum _ | ELitStat _ | EDecl _ _ | EConcat | EBind _ => 1
    | EApp f args => S (size f + fold_right (fun x acc => size x + acc) 0 args)
    | EObj ps => S (fold_right (fun x acc => size x + acc) 0 ps)
    | EOp _ es => S (fold_right (fun x acc => size x + acc) 0 es)
    | ECont body metas =>
        S (match body with Some b => size b | None => 0 end +
           fold_right (fun ke acc => match ke with (_, e') => size e' end + acc) 0 metas)
    | EXfer _ dom rg prm =>
        S (match dom with Some d => size d | None => 0 end + size rg + match prm with Some p => size p | None => 0 end)
    | EUri segs prm =>
        S (fold_right (fun sg acc => match sg with inl _ => 0 | inr e' => size e' end + acc) 0 segs +
           match prm with Some p => size p | None => 0 end)
    | ERel u xs => S (size u + fold_right (fun x acc => size x + acc) 0 xs)
    end.

  (** one more than the largest rank of a declaration that is entered when [e] is evaluated *)
  Fixpoint erank (e : expr) : nat :=
    match e with
    | ETerm _ e' | ESub e' | EProp _ _ e' | EUnary _ e' | EArr e' | ERec _ _ _ e' => erank e'
    | EPrim _ | ELitStr _ | ELitNum _ | ELitStat _ | EConcat | EBind _ => 0
    | EDecl m i => if cutb m i then 0 else S (rank m i)
    | EApp f args => Nat.max (erank f) (fold_right (fun x acc => Nat.max (erank x) acc) 0 args)
    | EObj ps => fold_right (fun x acc => Nat.max (erank x) acc) 0 ps
    | EOp _ es => fold_right (fun x acc => Nat.max (erank x) acc) 0 es
    | ECont body metas =>
        Nat.max (match body with Some b => erank b | None => 0 end)
                (fold_right (fun ke acc => Nat.max (match ke with (_, e') => erank e' end) acc) 0 metas)
    | EXfer _ dom rg prm =>
        Nat.max (match dom with Some d => erank d | None => 0 end)
                (Nat.max (erank rg) (match prm with Some p => erank p | None => 0 end))
    | EUri segs prm =>
        Nat.max (fold_right (fun sg acc => Nat.max (match sg with inl _ => 0 | inr e' => erank e' end) acc) 0 segs)
                (match prm with Some p => erank p | None => 0 end)
    | ERel u xs => Nat.max (erank u) (fold_right (fun x acc => Nat.max (erank x) acc) 0 xs)
    end.

  (** first order: a function is only ever applied by naming its declaration *)
  Fixpoint fo (e : expr) : bool :=
    match e with
    | ETerm _ e' | ESub e' | EProp _ _ e' | EUnary _ e' | EArr e' | ERec _ _ _ e' => fo e'
    | EPrim _ | ELitStr _ | ELitNum _ | ELitStat _ | EDecl _ _ | EConcat | EBind _ => true
    | EApp f args =>
        match f with
        | EConcat => true
        | EDecl m i => match get_decl P m i with Some d => match d_params d with [] => false | _ => true end | None => true end
        | _ => false
        end && forallb fo args
    | EObj ps => forallb fo ps
    | EOp _ es => forallb fo es
    | ECont body metas =>
        match body with Some b => fo b | None => true end && forallb (fun ke => match ke with (_, e') => fo e' end) metas
    | EXfer _ dom rg prm =>
        match dom with Some d => fo d | None => true end && fo rg && match prm with Some p => fo p | None => true end
    | EUri segs prm =>
        forallb (fun sg => match sg with inl _ => true | inr e' => fo e' end) segs && match prm with Some p => fo p | None => true end
    | ERel u xs => fo u && forallb fo xs
    end.

  Variables R Z : nat.

  Definition expr_okb (e : expr) : bool := Nat.leb (size e) Z && Nat.leb (erank e) R && fo e.

  Definition decl_sokb (m i : N) (d : decl) : bool :=
    expr_okb (d_rhs d) && (cutd d || Nat.leb (erank (d_rhs d)) (rank m i)).
End Strat.

(** iterate over all declarations with their indices *)
Definition enum {A} (l : list A) : list (N * A) := combine (map N.of_nat (List.seq 0 (length l))) l.
Definition all_decls (P : prog) (f : N -> N -> decl -> bool) : bool :=
  forallb (fun mds : N * list decl => forallb (fun idd : N * decl => f (fst mds) (fst idd) (snd idd)) (enum (snd mds))) (enum P).

Definition rank_of (rk : list (list nat)) (m i : N) : nat :=
  match nth_error rk (N.to_nat m) with Some l => nth (N.to_nat i) l 0 | None => 0 end.

Definition strat_okb (P : prog) (rk : list (list nat)) (R Z : nat) (rs : list expr) : bool :=
  all_decls P (fun m i d => decl_sokb P (rank_of rk) R Z m i d) &&
  forallb (expr_okb P (rank_of rk) R Z) rs.

(** a candidate rank by relaxation: after as many rounds as there are declarations the ranks of
    a well-founded program are stable *)
Definition relax (P : prog) (rk : list (list nat)) : list (list nat) :=
  fst (fold_left (fun '(acc, m) ds =>
                    (acc ++ [fst (fold_left (fun '(row, i) d =>
                                               (row ++ [if cutd d then 0 else erank P (rank_of rk) (d_rhs d)], N.succ i))
                                            ds ([], 0%N))], N.succ m))
                 P ([], 0%N)).

Fixpoint iter {A} (n : nat) (f : A -> A) (x : A) : A := match n with O => x | S n' => iter n' f (f x) end.

Definition ndecls (P : prog) : nat := fold_right (fun ds acc => length ds + acc) 0 P.
Definition ranks (P : prog) : list (list nat) := iter (S (ndecls P)) (relax P) (map (map (fun _ => 0)) P).

Definition max_rank (rk : list (list nat)) : nat := fold_right (fun l acc => Nat.max (fold_right Nat.max 0 l) acc) 0 rk.
Definition max_size (P : prog) (rk : list (list nat)) (rs : list expr) : nat :=
  Nat.max (fold_right (fun ds acc => Nat.max (fold_right (fun d acc' => Nat.max (size (d_rhs d)) acc') 0 ds) acc) 0 P)
          (fold_right (fun r acc => Nat.max (size r) acc) 0 rs).

(** the executable check used by the tie: compute the ranks, then verify them *)
Definition stratified (P : prog) (rs : list expr) : bool :=
  let rk := ranks P in
  strat_okb P rk (S (max_rank rk)) (max_size P rk rs) rs.
