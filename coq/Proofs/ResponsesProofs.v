(** Nothing declared in the ranges of a transfer is dropped by the emitter (property C02,
    responses part): every (status, media type) content with a schema is found under its
    status and media type, unless a later entry has the same status and the same effective
    media type (K20). *)
From Oal Require Import Responses.

Lemma get_set_same {A} k (v : A) m : get k (set k v m) = Some v.
Proof.
  induction m as [|[k' v'] m IH]; cbn [set get]; [rewrite N.eqb_refl; reflexivity|].
  destruct (N.eqb k k') eqn:E; cbn [get]; rewrite ?N.eqb_refl, ?E; auto.
Qed.

Lemma get_set_other {A} k k' (v : A) m : k <> k' -> get k (set k' v m) = get k m.
Proof.
  intros Hne. induction m as [|[k2 v2] m IH]; cbn [set get].
  - destruct (N.eqb_spec k k'); [contradiction|reflexivity].
  - destruct (N.eqb_spec k' k2) as [->|Hn2]; cbn [get].
    + destruct (N.eqb_spec k k2); [contradiction|reflexivity].
    + destruct (N.eqb k k2); [reflexivity|exact IH].
Qed.

Lemma skey_eqb_refl k : skey_eqb k k = true.
Proof. destruct k; cbn; [apply N.eqb_refl|reflexivity]. Qed.

Lemma skey_eqb_eq a b : skey_eqb a b = true -> a = b.
Proof. destruct a, b; cbn; intros H; try discriminate; [apply N.eqb_eq in H; congruence|reflexivity]. Qed.

Lemma rget_rset_same k v m : rget k (rset k v m) = Some v.
Proof.
  induction m as [|[k' v'] m IH]; cbn [rset rget]; [rewrite skey_eqb_refl; reflexivity|].
  destruct (skey_eqb k k') eqn:E; cbn [rget]; rewrite ?skey_eqb_refl, ?E; auto.
Qed.

Lemma rget_rset_other k k' v m : skey_eqb k k' = false -> rget k (rset k' v m) = rget k m.
Proof.
  intros Hne. induction m as [|[k2 v2] m IH]; cbn [rset rget]; [rewrite Hne; reflexivity|].
  destruct (skey_eqb k' k2) eqn:E; cbn [rget].
  - apply skey_eqb_eq in E. subst. rewrite Hne. reflexivity.
  - destruct (skey_eqb k k2); [reflexivity|exact IH].
Qed.

(** the schema found under status [st] and media type [m] *)
Definition found (acc : list (skey * response)) (st : skey) (m : N) : option N :=
  match rget st acc with Some r => get m (r_content r) | None => None end.

(** an entry collides with (st, m) when it has that status, that effective media type and a schema *)
Definition collides (st : skey) (m : N) (e : entry) : bool :=
  let '((st', md'), c') := e in
  skey_eqb st st' && N.eqb m (eff md') && match c_schema c' with Some _ => true | None => false end.

Lemma step_keeps acc e st m s :
  found acc st m = Some s -> collides st m e = false -> found (step acc e) st m = Some s.
Proof.
  destruct e as [[st' md'] c']. unfold found, step, collides. intros H Hc.
  destruct (skey_eqb st st') eqn:Es.
  - apply skey_eqb_eq in Es. subst st'. rewrite rget_rset_same. cbn [r_content].
    destruct (rget st acc) as [r|]; [|discriminate].
    destruct (c_schema c') as [s'|]; [|exact H].
    cbn [andb] in Hc. rewrite andb_true_r in Hc.
    rewrite get_set_other; [exact H|]. intros E. subst. rewrite N.eqb_refl in Hc. discriminate.
  - rewrite rget_rset_other by exact Es. exact H.
Qed.

Lemma fold_keeps rs : forall acc st m s,
  found acc st m = Some s -> forallb (fun e => negb (collides st m e)) rs = true ->
  found (fold_left step rs acc) st m = Some s.
Proof.
  induction rs as [|e rs IH]; intros acc st m s H Hc; [exact H|].
  cbn [forallb] in Hc. apply andb_true_iff in Hc. destruct Hc as [H1 H2]. apply negb_true_iff in H1.
  cbn [fold_left]. apply IH; [apply step_keeps; assumption|exact H2].
Qed.

Lemma step_adds acc st md c s : c_schema c = Some s -> found (step acc ((st, md), c)) st (eff md) = Some s.
Proof.
  intros H. unfold found, step. rewrite rget_rset_same. cbn [r_content]. rewrite H. apply get_set_same.
Qed.

(** every content with a schema is emitted under its status and media type, provided no later
    entry of the same transfer has the same status and the same effective media type *)
Theorem responses_lossless : forall before st md c after s,
  c_schema c = Some s ->
  forallb (fun e => negb (collides st (eff md) e)) after = true ->
  found (xfer_responses (before ++ ((st, md), c) :: after)) st (eff md) = Some s.
Proof.
  intros before st md c after s Hs Hc. unfold xfer_responses. rewrite fold_left_app. cbn [fold_left].
  apply fold_keeps; [apply step_adds; exact Hs|exact Hc].
Qed.

(** K20: two contents with one status whose media types are the default one, implicitly and
    explicitly: the first schema is lost *)
Lemma media_collision_refuted :
  exists rs st md c s, In ((st, md), c) rs /\ c_schema c = Some s /\ found (xfer_responses rs) st (eff md) <> Some s.
Proof.
  exists [((Some 200%N, Some 0%N), mk_content (Some 1%N) [] None); ((Some 200%N, None), mk_content (Some 2%N) [] None)],
         (Some 200%N), (Some 0%N), (mk_content (Some 1%N) [] None), 1%N.
  split; [left; reflexivity|]. split; [reflexivity|]. cbn. discriminate.
Qed.

(** K4 on the pinned tree: of two status-less contents only the last one reached `default` *)
Lemma default_overwritten_pinned :
  let rs := [((None, Some 5%N), mk_content (Some 1%N) [] None); ((None, Some 6%N), mk_content (Some 2%N) [] None)] in
  found (fold_left step_pinned rs []) None 5%N = None /\ found (xfer_responses rs) None 5%N = Some 1%N.
Proof. cbn. split; reflexivity. Qed.

(** F9 on the pinned tree: the headers of an earlier content with the same status were dropped *)
Lemma headers_overwritten_pinned :
  let rs := [((Some 200%N, Some 5%N), mk_content (Some 1%N) [(7%N, 70%N)] (Some 9%N)); ((Some 200%N, Some 6%N), mk_content (Some 2%N) [] None)] in
  (match rget (Some 200%N) (fold_left step_pinned rs []) with Some r => get 7%N (r_headers r) | None => None end) = None /\
  (match rget (Some 200%N) (xfer_responses rs) with Some r => (get 7%N (r_headers r), r_desc r) | None => (None, None) end) = (Some 70%N, Some 9%N).
Proof. cbn. split; reflexivity. Qed.
