#!/bin/sh
# Build the whole framework from files on disk (offline): Coq development (full .vo build),
# extraction + OCaml runner, Rust harness against /repo (hooks on), /repo's CLI and LSP binaries.
set -e
cd "$(dirname "$0")"
export CARGO_NET_OFFLINE=true
mkdir -p .cache evidence replays
(cd coq && coq_makefile -f _CoqProject -o Makefile >/dev/null && timeout 3000 make -j16 >/dev/null 2>.cache_make_err || (tail -30 .cache_make_err; exit 1))
sh runner/build.sh
[ -f harness/Cargo.lock ] || cp /repo/Cargo.lock harness/Cargo.lock
(cd harness && RUSTFLAGS="--cfg oal_verif" CARGO_TARGET_DIR=/verif/.cache/harness-target cargo build --offline --bins 2>&1 | tail -2)
(cd /repo && RUSTFLAGS="--cfg oal_verif" CARGO_TARGET_DIR=/verif/.cache/harness-target cargo build --offline -p oal-client --bins 2>&1 | tail -2)
echo setup done
