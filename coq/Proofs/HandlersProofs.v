From Coq Require Import Lia.
From Oal Require Import Handlers.

Lemma contains_spec s e i : contains s e i = true <-> s <= i < e.
Proof. unfold contains. rewrite andb_true_iff, N.leb_le, N.ltb_lt. reflexivity. Qed.

Lemma ordered_tail u us : ordered (u :: us) -> ordered us.
Proof. cbn [ordered]. tauto. Qed.

Lemma ordered_after u us : ordered (u :: us) -> forall v, In v us -> u_end u <= u_start v.
Proof.
  revert u. induction us as [|w us IH]; intros u H v Hin; [destruct Hin|].
  cbn [ordered] in H. destruct H as (A & B & C & D & E & F).
  destruct Hin as [<-|Hin]; [exact E|].
  specialize (IH w F v Hin). cbn [ordered] in F. lia.
Qed.

(** a cursor anywhere inside a use finds that use *)
Theorem use_at_inside us : ordered us -> forall u idx, In u us -> u_start u <= idx < u_end u -> use_at us idx = Some u.
Proof.
  induction us as [|w us IH]; intros Ho u idx Hin Hidx; [destruct Hin|].
  cbn [use_at]. destruct Hin as [<-|Hin].
  - rewrite (proj2 (contains_spec _ _ _) Hidx). reflexivity.
  - pose proof (ordered_after w us Ho u Hin) as Hafter.
    destruct (contains (u_start w) (u_end w) idx) eqn:E.
    + apply contains_spec in E. lia.
    + apply IH; [eapply ordered_tail; exact Ho|exact Hin|exact Hidx].
Qed.

Theorem goto_correct us : ordered us -> forall u idx, In u us -> u_start u <= idx < u_end u ->
  definition_at us idx = u_def u.
Proof. intros Ho u idx Hin Hidx. unfold definition_at. rewrite (use_at_inside us Ho u idx Hin Hidx). reflexivity. Qed.

(** a position inside no use gives no definition *)
Theorem goto_outside us idx : (forall u, In u us -> ~ (u_start u <= idx < u_end u)) -> definition_at us idx = None.
Proof.
  intros H. unfold definition_at. induction us as [|w us IH]; [reflexivity|].
  cbn [use_at]. destruct (contains (u_start w) (u_end w) idx) eqn:E.
  - apply contains_spec in E. exfalso. apply (H w); [left; reflexivity|exact E].
  - apply IH. intros u Hu. apply H. right. exact Hu.
Qed.

(** references are exactly the uses bound to the declaration *)
Theorem refs_exact us d u : In u (references_of us d) <-> In u us /\ u_def u = Some d.
Proof.
  unfold references_of. rewrite filter_In. split; intros [A B]; split; try exact A.
  - destruct (u_def u) as [x|]; [|discriminate]. apply N.eqb_eq in B. congruence.
  - rewrite B. apply N.eqb_refl.
Qed.

(** ... and each of them goes back to the declaration *)
Theorem refs_inverse us d : ordered us -> forall u, In u (references_of us d) ->
  definition_at us (u_istart u) = Some d.
Proof.
  intros Ho u Hu. apply refs_exact in Hu. destruct Hu as [Hin Hd].
  rewrite <- Hd. apply goto_correct; [exact Ho|exact Hin|].
  clear Hd. induction us as [|w us IH]; [destruct Hin|].
  cbn [ordered] in Ho. destruct Hin as [<-|Hin]; [lia|]. apply IH; tauto.
Qed.

(** the edits of a rename are the identifier spans of the reference uses and of the
    declaration: pairwise disjoint among uses *)
Theorem rename_use_edits_disjoint us d : ordered us ->
  forall u v, In u (references_of us d) -> In v (references_of us d) -> u <> v ->
  u_iend u <= u_istart v \/ u_iend v <= u_istart u.
Proof.
  intros Ho u v Hu Hv Hne. apply refs_exact in Hu. apply refs_exact in Hv.
  destruct Hu as [Hu _]. destruct Hv as [Hv _].
  induction us as [|w us IH]; [destruct Hu|].
  pose proof (ordered_after w us Ho) as Hafter. cbn [ordered] in Ho.
  destruct Hu as [<-|Hu]; destruct Hv as [<-|Hv].
  - contradiction.
  - left. specialize (Hafter v Hv).
    assert (ordered us) by tauto. clear IH.
    assert (u_start v <= u_istart v).
    { clear -H Hv. induction us as [|x us IH]; [destruct Hv|]. cbn [ordered] in H. destruct Hv as [<-|Hv]; [lia|apply IH; tauto]. }
    lia.
  - right. specialize (Hafter u Hu).
    assert (ordered us) by tauto.
    assert (u_start u <= u_istart u).
    { clear -H Hu. induction us as [|x us IH]; [destruct Hu|]. cbn [ordered] in H. destruct Hu as [<-|Hu]; [lia|apply IH; tauto]. }
    lia.
  - apply IH; tauto.
Qed.
